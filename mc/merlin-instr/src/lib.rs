#![doc(html_root_url = "https://docs.rs/merlin/3.0.0")]
// put this after the #![doc(..)] so it appears as a footer:
//! Note that docs will only build on nightly Rust until
//! [RFC 1990 stabilizes](https://github.com/rust-lang/rust/issues/44732).

#[cfg(target_endian = "big")]
compile_error!(
    r#"
This crate doesn't support big-endian targets, since I didn't
have one to test correctness on.  If you're seeing this message,
please file an issue!
"#
);

mod constants;
mod strobe;
mod transcript;

/// Verification seam (not part of upstream merlin): thread-local observer, challenge override, scheduling hook.
pub mod observe;

pub use crate::transcript::Transcript;
pub use crate::transcript::TranscriptRng;
pub use crate::transcript::TranscriptRngBuilder;
