//! Verification seam added to a verbatim copy of merlin 3.0.0 (NOT part of upstream).
//!
//! * a thread-local trace of every transcript operation (off unless `start()` was called on this thread);
//! * an optional override that replaces the bytes returned by the n-th challenge draw on this thread by zeros
//!   (the STROBE state still advances exactly as upstream, only the bytes handed to the caller change);
//! * an optional override that replaces a window of transcript-RNG outputs on this thread by zeros (same rule);
//! * an optional process-wide scheduling hook called on every observed operation.
//!
//! With none of these armed the crate behaves byte-for-byte like upstream merlin 3.0.0.

use std::cell::{Cell, RefCell};
use std::sync::atomic::{AtomicU64, Ordering};
use std::sync::OnceLock;

#[derive(Clone, Debug, PartialEq, Eq)]
pub enum Op {
    New { label: Vec<u8> },
    Append { label: Vec<u8>, data: Vec<u8> },
    Challenge { label: Vec<u8>, out: Vec<u8>, overridden: bool },
    BuildRng,
    Rekey { label: Vec<u8>, data: Vec<u8> },
    Finalize { external: [u8; 32] },
    RngFill { out: Vec<u8> },
}

#[derive(Clone, Debug, PartialEq, Eq)]
pub struct Event {
    /// Transcript identity: assigned in `Transcript::new`, inherited by clones, RNG builders and RNGs
    pub tid: u64,
    pub op: Op,
}

static NEXT_ID: AtomicU64 = AtomicU64::new(1);
static SCHED_HOOK: OnceLock<fn(&'static str)> = OnceLock::new();

thread_local! {
    static TRACE: RefCell<Option<Vec<Event>>> = const { RefCell::new(None) };
    static CHALLENGE_COUNT: Cell<usize> = const { Cell::new(0) };
    static ZERO_AT: Cell<Option<usize>> = const { Cell::new(None) };
    static NEXT_LABEL: Cell<Option<&'static str>> = const { Cell::new(None) };
    static RNG_FILL_COUNT: Cell<usize> = const { Cell::new(0) };
    static ZERO_FILLS: Cell<Option<(usize, usize)>> = const { Cell::new(None) };
}

pub(crate) fn fresh_id() -> u64 {
    NEXT_ID.fetch_add(1, Ordering::Relaxed)
}

/// Install a scheduling hook (first caller wins). It is called on every transcript operation.
pub fn set_sched_hook(f: fn(&'static str)) -> bool {
    SCHED_HOOK.set(f).is_ok()
}

#[inline]
fn sched(label: &'static str) {
    if let Some(f) = SCHED_HOOK.get() {
        f(label);
    }
}

/// Start recording on this thread (clears any previous trace and the challenge counter).
pub fn start() {
    TRACE.with(|t| *t.borrow_mut() = Some(Vec::new()));
    CHALLENGE_COUNT.with(|c| c.set(0));
    if ZERO_FILLS.with(|z| z.get()).is_none() {
        RNG_FILL_COUNT.with(|c| c.set(0));
    }
}

/// Stop recording on this thread and return the trace.
pub fn take() -> Vec<Event> {
    TRACE.with(|t| t.borrow_mut().take()).unwrap_or_default()
}

/// Number of challenge draws on this thread since the last `start()` / `reset_challenge_count()`.
pub fn challenge_count() -> usize {
    CHALLENGE_COUNT.with(|c| c.get())
}

pub fn reset_challenge_count() {
    CHALLENGE_COUNT.with(|c| c.set(0));
}

/// Make the n-th (0-based, counted from the last reset) challenge draw on this thread return all-zero bytes.
pub fn zero_challenge_at(n: Option<usize>) {
    ZERO_AT.with(|z| z.set(n));
}

/// Make the transcript-RNG outputs number `start .. start+count` (0-based `fill_bytes` calls on this thread, counted from
/// this call) all-zero bytes. The STROBE state advances exactly as upstream; only the bytes handed to the caller change.
/// `None` disarms. (An environment deviation: "the generator returned the one sample that reduces to zero".)
pub fn zero_rng_fills(range: Option<(usize, usize)>) {
    RNG_FILL_COUNT.with(|c| c.set(0));
    ZERO_FILLS.with(|z| z.set(range));
}

/// Number of transcript-RNG `fill_bytes` calls on this thread since the last `zero_rng_fills(..)` / `start()`.
pub fn rng_fill_count() -> usize {
    RNG_FILL_COUNT.with(|c| c.get())
}

pub(crate) fn after_rng_fill(tid: u64, dest: &mut [u8]) {
    let n = RNG_FILL_COUNT.with(|c| {
        let n = c.get();
        c.set(n + 1);
        n
    });
    if let Some((start, count)) = ZERO_FILLS.with(|z| z.get()) {
        if n >= start && n < start + count {
            for b in dest.iter_mut() {
                *b = 0;
            }
        }
    }
    emit(tid, || Op::RngFill { out: dest.to_vec() });
}

pub(crate) fn label_next(l: &'static str) {
    NEXT_LABEL.with(|n| n.set(Some(l)));
}

#[inline]
pub(crate) fn emit(tid: u64, op: impl FnOnce() -> Op) {
    let mut label: &'static str = "merlin.other";
    TRACE.with(|t| {
        if let Some(v) = t.borrow_mut().as_mut() {
            v.push(Event { tid, op: op() });
        }
    });
    if let Some(l) = NEXT_LABEL.with(|n| n.take()) {
        label = l;
    }
    sched(label);
}

pub(crate) fn after_challenge(tid: u64, label: &'static [u8], dest: &mut [u8]) {
    let n = CHALLENGE_COUNT.with(|c| {
        let n = c.get();
        c.set(n + 1);
        n
    });
    let overridden = ZERO_AT.with(|z| z.get()) == Some(n);
    if overridden {
        for b in dest.iter_mut() {
            *b = 0;
        }
    }
    NEXT_LABEL.with(|n| n.set(Some("merlin.challenge")));
    emit(tid, || Op::Challenge {
        label: label.to_vec(),
        out: dest.to_vec(),
        overridden,
    });
}
