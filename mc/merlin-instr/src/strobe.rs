//! Minimal implementation of (parts of) Strobe.

use core::ops::{Deref, DerefMut};

use keccak;
use zeroize::Zeroize;

/// Strobe R value; security level 128 is hardcoded
const STROBE_R: u8 = 166;

const FLAG_I: u8 = 1;
const FLAG_A: u8 = 1 << 1;
const FLAG_C: u8 = 1 << 2;
const FLAG_T: u8 = 1 << 3;
const FLAG_M: u8 = 1 << 4;
const FLAG_K: u8 = 1 << 5;

fn transmute_state(st: &mut AlignedKeccakState) -> &mut [u64; 25] {
    unsafe { &mut *(st as *mut AlignedKeccakState as *mut [u64; 25]) }
}

/// This is a wrapper around 200-byte buffer that's always 8-byte aligned
/// to make pointers to it safely convertible to pointers to [u64; 25]
/// (since u64 words must be 8-byte aligned)
#[derive(Clone, Zeroize)]
#[zeroize(drop)]
#[repr(align(8))]
struct AlignedKeccakState([u8; 200]);

/// A Strobe context for the 128-bit security level.
///
/// Only `meta-AD`, `AD`, `KEY`, and `PRF` operations are supported.
#[derive(Clone, Zeroize)]
pub struct Strobe128 {
    state: AlignedKeccakState,
    pos: u8,
    pos_begin: u8,
    cur_flags: u8,
}

impl ::core::fmt::Debug for Strobe128 {
    fn fmt(&self, f: &mut ::core::fmt::Formatter<'_>) -> ::core::fmt::Result {
        // Ensure that the Strobe state isn't accidentally logged
        write!(f, "Strobe128: STATE OMITTED")
    }
}

impl Strobe128 {
    pub fn new(protocol_label: &[u8]) -> Strobe128 {
        let initial_state = {
            let mut st = AlignedKeccakState([0u8; 200]);
            st[0..6].copy_from_slice(&[1, STROBE_R + 2, 1, 0, 1, 96]);
            st[6..18].copy_from_slice(b"STROBEv1.0.2");
            keccak::f1600(transmute_state(&mut st));

            st
        };

        let mut strobe = Strobe128 {
            state: initial_state,
            pos: 0,
            pos_begin: 0,
            cur_flags: 0,
        };

        strobe.meta_ad(protocol_label, false);

        strobe
    }

    pub fn meta_ad(&mut self, data: &[u8], more: bool) {
        self.begin_op(FLAG_M | FLAG_A, more);
        self.absorb(data);
    }

    pub fn ad(&mut self, data: &[u8], more: bool) {
        self.begin_op(FLAG_A, more);
        self.absorb(data);
    }

    pub fn prf(&mut self, data: &mut [u8], more: bool) {
        self.begin_op(FLAG_I | FLAG_A | FLAG_C, more);
        self.squeeze(data);
    }

    pub fn key(&mut self, data: &[u8], more: bool) {
        self.begin_op(FLAG_A | FLAG_C, more);
        self.overwrite(data);
    }
}

impl Strobe128 {
    fn run_f(&mut self) {
        self.state[self.pos as usize] ^= self.pos_begin;
        self.state[(self.pos + 1) as usize] ^= 0x04;
        self.state[(STROBE_R + 1) as usize] ^= 0x80;
        keccak::f1600(transmute_state(&mut self.state));
        self.pos = 0;
        self.pos_begin = 0;
    }

    fn absorb(&mut self, data: &[u8]) {
        for byte in data {
            self.state[self.pos as usize] ^= byte;
            self.pos += 1;
            if self.pos == STROBE_R {
                self.run_f();
            }
        }
    }

    fn overwrite(&mut self, data: &[u8]) {
        for byte in data {
            self.state[self.pos as usize] = *byte;
            self.pos += 1;
            if self.pos == STROBE_R {
                self.run_f();
            }
        }
    }

    fn squeeze(&mut self, data: &mut [u8]) {
        for byte in data {
            *byte = self.state[self.pos as usize];
            self.state[self.pos as usize] = 0;
            self.pos += 1;
            if self.pos == STROBE_R {
                self.run_f();
            }
        }
    }

    fn begin_op(&mut self, flags: u8, more: bool) {
        // Check if we're continuing an operation
        if more {
            assert_eq!(
                self.cur_flags, flags,
                "You tried to continue op {:#b} but changed flags to {:#b}",
                self.cur_flags, flags,
            );
            return;
        }

        // Skip adjusting direction information (we just use AD, PRF)
        assert_eq!(
            flags & FLAG_T,
            0u8,
            "You used the T flag, which this implementation doesn't support"
        );

        let old_begin = self.pos_begin;
        self.pos_begin = self.pos + 1;
        self.cur_flags = flags;

        self.absorb(&[old_begin, flags]);

        // Force running F if C or K is set
        let force_f = 0 != (flags & (FLAG_C | FLAG_K));

        if force_f && self.pos != 0 {
            self.run_f();
        }
    }
}

impl Deref for AlignedKeccakState {
    type Target = [u8; 200];

    fn deref(&self) -> &Self::Target {
        &self.0
    }
}

impl DerefMut for AlignedKeccakState {
    fn deref_mut(&mut self) -> &mut Self::Target {
        &mut self.0
    }
}

#[cfg(test)]
mod tests {
    use strobe_rs::{self, SecParam};

    #[test]
    fn test_conformance() {
        let mut s1 = super::Strobe128::new(b"Conformance Test Protocol");
        let mut s2 = strobe_rs::Strobe::new(b"Conformance Test Protocol", SecParam::B128);

        // meta-AD(b"msg"); AD(msg)

        let msg = [99u8; 1024];

        s1.meta_ad(b"ms", false);
        s1.meta_ad(b"g", true);
        s1.ad(&msg, false);

        s2.meta_ad(b"ms", false);
        s2.meta_ad(b"g", true);
        s2.ad(&msg, false);

        // meta-AD(b"prf"); PRF()

        let mut prf1 = [0u8; 32];
        s1.meta_ad(b"prf", false);
        s1.prf(&mut prf1, false);

        let mut prf2 = [0u8; 32];
        s2.meta_ad(b"prf", false);
        s2.prf(&mut prf2, false);

        assert_eq!(prf1, prf2);

        // meta-AD(b"key"); KEY(prf output)

        s1.meta_ad(b"key", false);
        s1.key(&prf1, false);

        s2.meta_ad(b"key", false);
        s2.key(&prf2, false);

        // meta-AD(b"prf"); PRF()

        let mut prf1 = [0u8; 32];
        s1.meta_ad(b"prf", false);
        s1.prf(&mut prf1, false);

        let mut prf2 = [0u8; 32];
        s2.meta_ad(b"prf", false);
        s2.prf(&mut prf2, false);

        assert_eq!(prf1, prf2);
    }
}
