/// Domain separation label to initialize the STROBE context.
///
/// This is not to be confused with the crate's semver string:
/// the latter applies to the API, while this label defines the protocol.
/// E.g. it is possible that crate 2.0 will have an incompatible API,
/// but implement the same 1.0 protocol.
pub const MERLIN_PROTOCOL_LABEL: &[u8] = b"Merlin v1.0";
