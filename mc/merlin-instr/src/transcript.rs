use rand_core;
use zeroize::Zeroize;

use crate::strobe::Strobe128;

fn encode_u64(x: u64) -> [u8; 8] {
    use byteorder::{ByteOrder, LittleEndian};

    let mut buf = [0; 8];
    LittleEndian::write_u64(&mut buf, x);
    buf
}

fn encode_usize_as_u32(x: usize) -> [u8; 4] {
    use byteorder::{ByteOrder, LittleEndian};

    assert!(x <= (u32::max_value() as usize));

    let mut buf = [0; 4];
    LittleEndian::write_u32(&mut buf, x as u32);
    buf
}

/// A transcript of a public-coin argument.
///
/// The prover's messages are added to the transcript using
/// [`append_message`](Transcript::append_message), and the verifier's
/// challenges can be computed using
/// [`challenge_bytes`](Transcript::challenge_bytes).
///
/// # Creating and using a Merlin transcript
///
/// To create a Merlin transcript, use [`Transcript::new()`].  This
/// function takes a domain separation label which should be unique to
/// the application.
///
/// To use the transcript with a Merlin-based proof implementation,
/// the prover's side creates a Merlin transcript with an
/// application-specific domain separation label, and passes a `&mut`
/// reference to the transcript to the proving function(s).
///
/// To verify the resulting proof, the verifier creates their own
/// Merlin transcript using the same domain separation label, then
/// passes a `&mut` reference to the verifier's transcript to the
/// verification function.
///
/// # Implementing proofs using Merlin
///
/// For information on the design of Merlin and how to use it to
/// implement a proof system, see the documentation at
/// [merlin.cool](https://merlin.cool), particularly the [Using
/// Merlin](https://merlin.cool/use/index.html) section.
#[derive(Clone, Zeroize)]
pub struct Transcript {
    strobe: Strobe128,
    #[zeroize(skip)]
    id: u64,
}

impl Transcript {
    /// Initialize a new transcript with the supplied `label`, which
    /// is used as a domain separator.
    ///
    /// # Note
    ///
    /// This function should be called by a proof library's API
    /// consumer (i.e., the application using the proof library), and
    /// **not by the proof implementation**.  See the [Passing
    /// Transcripts](https://merlin.cool/use/passing.html) section of
    /// the Merlin website for more details on why.
    pub fn new(label: &'static [u8]) -> Transcript {
        use crate::constants::MERLIN_PROTOCOL_LABEL;


        let mut transcript = Transcript {
            strobe: Strobe128::new(MERLIN_PROTOCOL_LABEL),
            id: crate::observe::fresh_id(),
        };
        crate::observe::emit(transcript.id, || crate::observe::Op::New { label: label.to_vec() });
        transcript.append_message(b"dom-sep", label);

        transcript
    }

    /// Append a prover's `message` to the transcript.
    ///
    /// The `label` parameter is metadata about the message, and is
    /// also appended to the transcript.  See the [Transcript
    /// Protocols](https://merlin.cool/use/protocol.html) section of
    /// the Merlin website for details on labels.
    pub fn append_message(&mut self, label: &'static [u8], message: &[u8]) {
        let data_len = encode_usize_as_u32(message.len());
        self.strobe.meta_ad(label, false);
        self.strobe.meta_ad(&data_len, true);
        self.strobe.ad(message, false);
        crate::observe::emit(self.id, || crate::observe::Op::Append {
            label: label.to_vec(),
            data: message.to_vec(),
        });

    }

    /// Deprecated.  This function was renamed to
    /// [`append_message`](Transcript::append_message).
    ///
    /// This is intended to avoid any possible confusion between the
    /// transcript-level messages and protocol-level commitments.
    #[deprecated(since = "1.1.0", note = "renamed to append_message for clarity.")]
    pub fn commit_bytes(&mut self, label: &'static [u8], message: &[u8]) {
        self.append_message(label, message);
    }

    /// Convenience method for appending a `u64` to the transcript.
    ///
    /// The `label` parameter is metadata about the message, and is
    /// also appended to the transcript.  See the [Transcript
    /// Protocols](https://merlin.cool/use/protocol.html) section of
    /// the Merlin website for details on labels.
    ///
    /// # Implementation
    ///
    /// Calls `append_message` with the 8-byte little-endian encoding
    /// of `x`.
    pub fn append_u64(&mut self, label: &'static [u8], x: u64) {
        self.append_message(label, &encode_u64(x));
    }

    /// Deprecated.  This function was renamed to
    /// [`append_u64`](Transcript::append_u64).
    ///
    /// This is intended to avoid any possible confusion between the
    /// transcript-level messages and protocol-level commitments.
    #[deprecated(since = "1.1.0", note = "renamed to append_u64 for clarity.")]
    pub fn commit_u64(&mut self, label: &'static [u8], x: u64) {
        self.append_u64(label, x);
    }

    /// Fill the supplied buffer with the verifier's challenge bytes.
    ///
    /// The `label` parameter is metadata about the challenge, and is
    /// also appended to the transcript.  See the [Transcript
    /// Protocols](https://merlin.cool/use/protocol.html) section of
    /// the Merlin website for details on labels.
    pub fn challenge_bytes(&mut self, label: &'static [u8], dest: &mut [u8]) {
        let data_len = encode_usize_as_u32(dest.len());
        self.strobe.meta_ad(label, false);
        self.strobe.meta_ad(&data_len, true);
        self.strobe.prf(dest, false);
        crate::observe::after_challenge(self.id, label, dest);
    }

    /// Fork the current [`Transcript`] to construct an RNG whose output is bound
    /// to the current transcript state as well as prover's secrets.
    ///
    /// See the [`TranscriptRngBuilder`] documentation for more details.
    pub fn build_rng(&self) -> TranscriptRngBuilder {
        crate::observe::emit(self.id, || crate::observe::Op::BuildRng);
        TranscriptRngBuilder {
            strobe: self.strobe.clone(),
            id: self.id,
        }
    }
}

/// Constructs a [`TranscriptRng`] by rekeying the [`Transcript`] with
/// prover secrets and an external RNG.
///
/// The prover uses a [`TranscriptRngBuilder`] to rekey with its
/// witness data, before using an external RNG to finalize to a
/// [`TranscriptRng`].  The resulting [`TranscriptRng`] will be a PRF
/// of all of the entire public transcript, the prover's secret
/// witness data, and randomness from the external RNG.
///
/// # Usage
///
/// To construct a [`TranscriptRng`], a prover calls
/// [`Transcript::build_rng()`] to clone the transcript state, then
/// uses [`rekey_with_witness_bytes()`][rekey_with_witness_bytes] to rekey the
/// transcript with the prover's secrets, before finally calling
/// [`finalize()`][finalize].  This rekeys the transcript with the
/// output of an external [`rand_core::RngCore`] instance and returns
/// a finalized [`TranscriptRng`].
///
/// These methods are intended to be chained, passing from a borrowed
/// [`Transcript`] to an owned [`TranscriptRng`] as follows:
/// ```
/// # extern crate merlin;
/// # extern crate rand_core;
/// # use merlin::Transcript;
/// # fn main() {
/// # let mut transcript = Transcript::new(b"TranscriptRng doctest");
/// # let public_data = b"public data";
/// # let witness_data = b"witness data";
/// # let more_witness_data = b"witness data";
/// transcript.append_message(b"public", public_data);
///
/// let mut rng = transcript
///     .build_rng()
///     .rekey_with_witness_bytes(b"witness1", witness_data)
///     .rekey_with_witness_bytes(b"witness2", more_witness_data)
///     .finalize(&mut rand_core::OsRng);
/// # }
/// ```
/// In this example, the final `rng` is a PRF of `public_data`
/// (as well as all previous `transcript` state), and of the prover's
/// secret `witness_data` and `more_witness_data`, and finally, of the
/// output of the thread-local RNG.
/// Note that because the [`TranscriptRng`] is produced from
/// [`finalize()`][finalize], it's impossible to forget
/// to rekey the transcript with external randomness.
///
/// # Note
///
/// Protocols that require randomness in multiple places (e.g., to
/// choose blinding factors for a multi-round protocol) should create
/// a fresh [`TranscriptRng`] **each time they need randomness**,
/// rather than reusing a single instance.  This ensures that the
/// randomness in each round is bound to the latest transcript state,
/// rather than just the state of the transcript when randomness was
/// first required.
///
/// # Typed Witness Data
///
/// Like the [`Transcript`], the [`TranscriptRngBuilder`] provides a
/// minimal, byte-oriented API, and like the [`Transcript`], this API
/// can be extended to allow rekeying with protocol-specific types
/// using an extension trait.  See the [Transcript
/// Protocols](https://merlin.cool/use/protocol.html) section of the
/// Merlin website for more details.
///
/// [rekey_with_witness_bytes]: TranscriptRngBuilder::rekey_with_witness_bytes
/// [finalize]: TranscriptRngBuilder::finalize
pub struct TranscriptRngBuilder {
    strobe: Strobe128,
    id: u64,
}

impl TranscriptRngBuilder {
    /// Rekey the transcript using the provided witness data.
    ///
    /// The `label` parameter is metadata about `witness`.
    pub fn rekey_with_witness_bytes(
        mut self,
        label: &'static [u8],
        witness: &[u8],
    ) -> TranscriptRngBuilder {
        let witness_len = encode_usize_as_u32(witness.len());
        self.strobe.meta_ad(label, false);
        self.strobe.meta_ad(&witness_len, true);
        self.strobe.key(witness, false);
        crate::observe::emit(self.id, || crate::observe::Op::Rekey {
            label: label.to_vec(),
            data: witness.to_vec(),
        });

        self
    }

    /// Deprecated.  This function was renamed to
    /// [`rekey_with_witness_bytes`](Transcript::rekey_with_witness_bytes).
    ///
    /// This is intended to avoid any possible confusion between the
    /// transcript-level messages and protocol-level commitments.
    #[deprecated(
        since = "1.1.0",
        note = "renamed to rekey_with_witness_bytes for clarity."
    )]
    pub fn commit_witness_bytes(
        self,
        label: &'static [u8],
        witness: &[u8],
    ) -> TranscriptRngBuilder {
        self.rekey_with_witness_bytes(label, witness)
    }

    /// Use the supplied external `rng` to rekey the transcript, so
    /// that the finalized [`TranscriptRng`] is a PRF bound to
    /// randomness from the external RNG, as well as all other
    /// transcript data.
    pub fn finalize<R>(mut self, rng: &mut R) -> TranscriptRng
    where
        R: rand_core::RngCore + rand_core::CryptoRng,
    {
        let random_bytes = {
            let mut bytes = [0u8; 32];
            rng.fill_bytes(&mut bytes);
            bytes
        };

        self.strobe.meta_ad(b"rng", false);
        self.strobe.key(&random_bytes, false);
        crate::observe::label_next("merlin.finalize");
        crate::observe::emit(self.id, || crate::observe::Op::Finalize { external: random_bytes });

        TranscriptRng {
            strobe: self.strobe,
            id: self.id,
        }
    }
}

/// An RNG providing synthetic randomness to the prover.
///
/// A [`TranscriptRng`] is constructed from a [`Transcript`] using a
/// [`TranscriptRngBuilder`]; see its documentation for details on
/// how to construct one.
///
/// The transcript RNG construction is described in the [Generating
/// Randomness](https://merlin.cool/transcript/rng.html) section of
/// the Merlin website.
pub struct TranscriptRng {
    strobe: Strobe128,
    id: u64,
}

impl rand_core::RngCore for TranscriptRng {
    fn next_u32(&mut self) -> u32 {
        rand_core::impls::next_u32_via_fill(self)
    }

    fn next_u64(&mut self) -> u64 {
        rand_core::impls::next_u64_via_fill(self)
    }

    fn fill_bytes(&mut self, dest: &mut [u8]) {
        let dest_len = encode_usize_as_u32(dest.len());
        self.strobe.meta_ad(&dest_len, false);
        self.strobe.prf(dest, false);
        crate::observe::after_rng_fill(self.id, dest);
    }

    fn try_fill_bytes(&mut self, dest: &mut [u8]) -> Result<(), rand_core::Error> {
        self.fill_bytes(dest);
        Ok(())
    }
}

impl rand_core::CryptoRng for TranscriptRng {}

