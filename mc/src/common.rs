//! Shared alphabets and case-building helpers (DESIGN.md 2.8)

use std::{
    any::{Any, TypeId},
    collections::HashMap,
    sync::{Arc, Mutex, OnceLock},
};

use curve25519_dalek::scalar::Scalar;
use merlin::Transcript;
use sha3::{Digest, Sha3_512};
use tari_bulletproofs_plus::{
    commitment_opening::CommitmentOpening,
    errors::ProofError,
    generators::pedersen_gens::PedersenGens,
    range_parameters::RangeParameters,
    range_proof::{RangeProof, VerifyAction},
    range_statement::RangeStatement,
    range_witness::RangeWitness,
};

use crate::{
    api::{HRng, G},
    fg::{self, F},
    refbp::{self, Challenges, Nonces, RefProof, RefStatement},
};

#[derive(Clone, Copy, Debug, PartialEq, Eq, Hash, PartialOrd, Ord)]
pub struct Cfg {
    pub n: usize,
    pub m: usize,
    pub c: usize,
    pub d: usize,
}

impl Cfg {
    pub fn new(n: usize, m: usize, c: usize, d: usize) -> Cfg {
        Cfg { n, m, c, d }
    }

    pub fn key(&self) -> String {
        format!("n={},m={},c={},d={}", self.n, self.m, self.c, self.d)
    }

    pub fn big_n(&self) -> usize {
        self.n * self.m
    }

    pub fn rounds(&self) -> usize {
        self.big_n().trailing_zeros() as usize
    }

    pub fn max_value(&self) -> u64 {
        if self.n >= 64 {
            u64::MAX
        } else {
            (1u64 << self.n) - 1
        }
    }
}

pub const BITS: [usize; 7] = [1, 2, 4, 8, 16, 32, 64];

/// The full lattice: 7 bit lengths x 21 (m, c) pairs x 6 degrees = 882 points
pub fn lattice_full() -> Vec<Cfg> {
    let mut v = Vec::new();
    for &n in &BITS {
        for mi in 0..6 {
            let m = 1usize << mi;
            let mut c = m;
            while c <= 32 {
                for d in 1..=6 {
                    v.push(Cfg::new(n, m, c, d));
                }
                c *= 2;
            }
        }
    }
    v
}

/// The quick sub-lattice (136 points): every "first time a loop iterates more than twice" point, every padding
/// regime (c = m, 2m, 4m), degrees {1,2,3,6}, all seven bit lengths, and a few points with aggregation 16 / 32
pub fn lattice_quick() -> Vec<Cfg> {
    let mut v = Vec::new();
    for &n in &[1usize, 2, 4, 8, 64] {
        for &(m, c) in &[(1usize, 1usize), (1, 2), (2, 2), (2, 8), (4, 4), (8, 8)] {
            for &d in &[1usize, 2, 3, 6] {
                v.push(Cfg::new(n, m, c, d));
            }
        }
    }
    for &n in &[16usize, 32] {
        for &(m, c) in &[(1usize, 1usize), (2, 2), (4, 8)] {
            for &d in &[1usize, 6] {
                v.push(Cfg::new(n, m, c, d));
            }
        }
    }
    v.push(Cfg::new(2, 16, 16, 1));
    v.push(Cfg::new(8, 16, 32, 2));
    v.push(Cfg::new(64, 16, 16, 1));
    v.push(Cfg::new(1, 32, 32, 1));
    // the values in between: every extension degree, every bit length and every aggregation size occurs in the quick
    // tier, each with a small and a large partner in the other dimensions
    for &d in &[4usize, 5] {
        for &(n, m, c) in &[(1usize, 1usize, 1usize), (2, 2, 2), (8, 2, 8), (64, 1, 2), (16, 4, 4), (32, 8, 8)] {
            v.push(Cfg::new(n, m, c, d));
        }
    }
    for &n in &[16usize, 32] {
        for &(m, c, d) in &[(1usize, 2usize, 2usize), (8, 8, 3), (1, 32, 3), (16, 16, 2)] {
            v.push(Cfg::new(n, m, c, d));
        }
    }
    v.push(Cfg::new(2, 32, 32, 2));
    v.push(Cfg::new(4, 16, 16, 6));

    v
}

/// Capacities beyond the largest bit length (the two limits are unrelated); used by the checks that are cheap per point
pub fn lattice_large_capacity() -> Vec<Cfg> {
    vec![Cfg::new(1, 1, 64, 1), Cfg::new(2, 1, 128, 2), Cfg::new(1, 128, 128, 1), Cfg::new(2, 64, 64, 1)]
}

/// A smaller lattice for expensive per-configuration explorations
pub fn lattice_small() -> Vec<Cfg> {
    let mut v = Vec::new();
    for &n in &[1usize, 2, 8, 64] {
        for &(m, c) in &[(1usize, 1usize), (2, 4), (8, 8)] {
            for &d in &[1usize, 3] {
                v.push(Cfg::new(n, m, c, d));
            }
        }
    }
    v
}

pub fn lattice(tier_thorough: bool) -> Vec<Cfg> {
    if tier_thorough {
        lattice_full()
    } else {
        lattice_quick()
    }
}

/// Value alphabet W(n)
pub fn values_alphabet(n: usize) -> Vec<u64> {
    if n <= 4 {
        (0..(1u64 << n)).collect()
    } else {
        let max = if n >= 64 { u64::MAX } else { (1u64 << n) - 1 };
        let half = 1u64 << (n - 1);
        let mut v = vec![0, 1, half - 1, half, max - 1, max];
        v.dedup();
        v
    }
}

/// Valid promise alphabet relative to a value
pub fn promises_valid(v: u64) -> Vec<Option<u64>> {
    let mut out = vec![None, Some(0)];
    for p in [1u64, v.saturating_sub(1), v] {
        if p <= v && !out.contains(&Some(p)) {
            out.push(Some(p));
        }
    }
    out
}

pub fn wide_scalar(tag: &str, a: u64, b: u64) -> Scalar {
    let mut h = Sha3_512::new();
    h.update(tag.as_bytes());
    h.update(a.to_le_bytes());
    h.update(b.to_le_bytes());
    let out: [u8; 64] = h.finalize().into();
    Scalar::from_bytes_mod_order_wide(&out)
}

/// Blinding component k of commitment j: distinct per (j, k) so index mix-ups are visible
pub fn blinding(j: usize, k: usize) -> Scalar {
    wide_scalar("blinding", j as u64, k as u64)
}

pub fn seed_scalar(i: u64) -> Scalar {
    wide_scalar("seed", i, 0)
}

/// A fixed mixed value for position j of an aggregate
pub fn default_value(cfg: &Cfg, j: usize) -> u64 {
    let x = 0x9E37_79B9_7F4A_7C15u64.wrapping_mul(j as u64 + 1) ^ 0x5555_5555_5555_5555;
    x & cfg.max_value()
}

#[derive(Clone, Debug)]
pub struct Wit {
    pub values: Vec<u64>,
    pub blindings: Vec<Vec<Scalar>>,
    pub promises: Vec<Option<u64>>,
    pub seed: Option<Scalar>,
}

impl Wit {
    pub fn default_for(cfg: &Cfg) -> Wit {
        Wit {
            values: (0..cfg.m).map(|j| default_value(cfg, j)).collect(),
            blindings: (0..cfg.m).map(|j| (0..cfg.d).map(|k| blinding(j, k)).collect()).collect(),
            promises: vec![None; cfg.m],
            seed: None,
        }
    }

    pub fn key(&self) -> String {
        let bl: Vec<String> = self
            .blindings
            .iter()
            .map(|r| r.iter().map(|s| fg::hex(&s.as_bytes()[..3])).collect::<Vec<_>>().join("."))
            .collect();
        format!(
            "v={:?},p={:?},r={},seed={}",
            self.values,
            self.promises.iter().map(|p| p.map(|x| x as i128).unwrap_or(-1)).collect::<Vec<_>>(),
            bl.join("/"),
            self.seed.map(|s| fg::hex(&s.as_bytes()[..3])).unwrap_or_else(|| "-".into())
        )
    }
}

#[derive(Clone, Copy, Debug, PartialEq, Eq)]
pub struct Ctx {
    pub label: &'static [u8],
    pub msg: Option<&'static [u8]>,
}

pub const CTX_A: Ctx = Ctx {
    label: b"ctx-a",
    msg: None,
};

pub fn contexts() -> Vec<Ctx> {
    let mut v = Vec::new();
    for label in [&b"ctx-a"[..], &b"ctx-b"[..]] {
        for msg in [None, Some(&b"m1"[..]), Some(&b"m2"[..])] {
            v.push(Ctx { label, msg });
        }
    }
    v
}

impl Ctx {
    pub fn key(&self) -> String {
        format!(
            "{}{}",
            String::from_utf8_lossy(self.label),
            self.msg.map(|m| format!("+{}", String::from_utf8_lossy(m))).unwrap_or_default()
        )
    }

    pub fn transcript(&self) -> Transcript {
        let mut t = Transcript::new(self.label);
        if let Some(m) = self.msg {
            t.append_message(b"caller", m);
        }
        t
    }
}

pub const MODES: [VerifyAction; 3] = [
    VerifyAction::VerifyOnly,
    VerifyAction::RecoverAndVerify,
    VerifyAction::RecoverOnly,
];

pub fn mode_name(a: VerifyAction) -> &'static str {
    match a {
        VerifyAction::VerifyOnly => "VerifyOnly",
        VerifyAction::RecoverAndVerify => "RecoverAndVerify",
        VerifyAction::RecoverOnly => "RecoverOnly",
    }
}

pub const RNG_MODELS: [&str; 6] = ["chacha-a", "chacha-b", "chacha-c", "zero", "const5a", "period2"];

pub struct Built<P: G> {
    pub params: RangeParameters<P>,
    pub statement: RangeStatement<P>,
    pub witness: RangeWitness,
    pub commitments: Vec<P>,
}

pub fn commitments_for<P: G>(pc: &PedersenGens<P>, wit: &Wit) -> Result<Vec<P>, ProofError> {
    wit.values
        .iter()
        .zip(wit.blindings.iter())
        .map(|(v, r)| P::commit(pc, &Scalar::from(*v), r))
        .collect()
}

pub fn witness_for(wit: &Wit) -> Result<RangeWitness, ProofError> {
    RangeWitness::init(
        wit.values
            .iter()
            .zip(wit.blindings.iter())
            .map(|(v, r)| CommitmentOpening::new(*v, r.clone()))
            .collect(),
    )
}

/// Parameters, honest commitments, statement and witness for a configuration
pub fn build<P: G>(cfg: &Cfg, wit: &Wit) -> Result<Built<P>, ProofError> {
    let pc = P::pc_gens(cfg.d);
    build_with_pc(cfg, wit, pc)
}

pub fn build_with_pc<P: G>(cfg: &Cfg, wit: &Wit, pc: PedersenGens<P>) -> Result<Built<P>, ProofError> {
    let params = P::params(cfg.n, cfg.c, pc)?;
    let commitments = commitments_for(params.pc_gens(), wit)?;
    let statement = P::statement(params.clone(), commitments.clone(), wit.promises.clone(), wit.seed)?;
    let witness = witness_for(wit)?;
    Ok(Built {
        params,
        statement,
        witness,
        commitments,
    })
}

/// Statement with the same parameters / commitments but other promises / seed
pub fn restate<P: G>(
    b: &Built<P>,
    commitments: Vec<P>,
    promises: Vec<Option<u64>>,
    seed: Option<Scalar>,
) -> Result<RangeStatement<P>, ProofError> {
    P::statement(b.params.clone(), commitments, promises, seed)
}

// ---------------------------------------------------------------------------------------------------------------
// reference-model glue

type GensCache = Mutex<HashMap<(TypeId, usize, usize), Arc<dyn Any + Send + Sync>>>;

fn gens_cache() -> &'static GensCache {
    static C: OnceLock<GensCache> = OnceLock::new();
    C.get_or_init(|| Mutex::new(HashMap::new()))
}

/// Reference generators (independent derivation), cached per group / bit length / party count
pub fn ref_gens_cached<P: G>(n: usize, parties: usize) -> Arc<(Vec<P>, Vec<P>)> {
    let key = (TypeId::of::<P>(), n, parties);
    if let Some(a) = gens_cache().lock().unwrap().get(&key) {
        return a.clone().downcast::<(Vec<P>, Vec<P>)>().unwrap();
    }
    let v: Arc<(Vec<P>, Vec<P>)> = Arc::new(refbp::ref_gens::<P>(n, parties));
    gens_cache().lock().unwrap().insert(key, v.clone());
    v
}

/// Reference statement for a library statement: bit length, commitment generators, vector generators, commitments and
/// promises are the statement's public data. (That those generators are the documented derivation is C11 / C19's
/// business and is checked there against `ref_gens`; every other check evaluates the relation over the generators the
/// parameter object actually holds, so that it decides its own property only.)
pub fn ref_statement<P: G>(st: &RangeStatement<P>) -> RefStatement<P> {
    let n = st.generators.bit_length();
    let m = st.commitments.len();
    let gi: Vec<P> = P::gi_vec(&st.generators).into_iter().take(n * m).collect();
    let hi: Vec<P> = P::hi_vec(&st.generators).into_iter().take(n * m).collect();
    RefStatement {
        n,
        h: st.generators.h_base().clone(),
        g: st.generators.g_bases().to_vec(),
        gi,
        hi,
        commitments: st.commitments.clone(),
        promises: st.minimum_value_promises.clone(),
    }
}

/// Reference statement over the independently derived generators (C19: interoperability with the released protocol)
pub fn ref_statement_indep<P: G>(st: &RangeStatement<P>) -> RefStatement<P> {
    let n = st.generators.bit_length();
    let m = st.commitments.len();
    let gens = ref_gens_cached::<P>(n, m);
    RefStatement {
        n,
        h: st.generators.h_base().clone(),
        g: st.generators.g_bases().to_vec(),
        gi: gens.0.clone(),
        hi: gens.1.clone(),
        commitments: st.commitments.clone(),
        promises: st.minimum_value_promises.clone(),
    }
}

pub fn ref_proof_of<P: G>(p: &RangeProof<P>) -> Option<RefProof> {
    refbp::ref_decode_allow_zero_rounds(&P::to_bytes(p))
}

/// Read the prover's nonces back from the coordinates of an honest-form proof over F (DESIGN.md 2.2)
pub fn read_nonces_f(st: &RefStatement<F>, proof: &RefProof, ch: &Challenges) -> Option<Nonces> {
    let d = st.d();
    let gid: Vec<fg::BasisId> = st.g.iter().map(|g| *g.0.keys().next().unwrap()).collect();
    let dec = |b: &[u8; 32]| F::g_decompress(b);
    let a = dec(&proof.a)?;
    let a1 = dec(&proof.a1)?;
    let b = dec(&proof.b)?;
    let alpha = (0..d).map(|k| a.coeff(gid[k])).collect();
    let mut dl = Vec::new();
    let mut dr = Vec::new();
    for (l, r) in proof.l.iter().zip(proof.r.iter()) {
        let l = dec(l)?;
        let r = dec(r)?;
        dl.push((0..d).map(|k| l.coeff(gid[k])).collect());
        dr.push((0..d).map(|k| r.coeff(gid[k])).collect());
    }
    let delta = (0..d).map(|k| a1.coeff(gid[k])).collect();
    let eta = (0..d).map(|k| b.coeff(gid[k])).collect();
    let (gc, hc) = refbp::folded_coeffs(st.big_n(), &ch.y, &ch.rounds);
    let g0 = *st.gi[0].0.keys().next().unwrap();
    let h0 = *st.hi[0].0.keys().next().unwrap();
    let r = a1.coeff(g0) * gc[0].invert();
    let s = a1.coeff(h0) * hc[0].invert();
    Some(Nonces {
        alpha,
        dl,
        dr,
        delta,
        eta,
        r,
        s,
    })
}

/// Prove with the library under a context and RNG model
pub fn lib_prove<P: G>(b: &Built<P>, ctx: &Ctx, rng: &mut HRng) -> Result<RangeProof<P>, ProofError> {
    let mut t = ctx.transcript();
    P::prove(&mut t, &b.statement, &b.witness, rng)
}

/// An honest prove the caller's question depends on but is not about: refusal AND panic both end the case as
/// `honest-precondition-failed(skipped)` (the properties that own "the prover works" judge it themselves)
pub fn lib_prove_honest<P: G>(b: &Built<P>, ctx: &Ctx, rng: &mut HRng) -> RangeProof<P> {
    match catch(|| lib_prove(b, ctx, rng)) {
        Ok(Ok(p)) => p,
        Ok(Err(e)) => std::panic::panic_any(HonestPrecondition(format!("an honest prove failed: {}", crate::api::err_name(&e)))),
        Err(p) => std::panic::panic_any(HonestPrecondition(format!("an honest prove panicked: {}", p))),
    }
}

pub fn lib_verify_one<P: G>(
    st: &RangeStatement<P>,
    proof: &RangeProof<P>,
    ctx: &Ctx,
    mode: VerifyAction,
) -> Result<Option<Vec<Scalar>>, ProofError> {
    let mut ts = vec![ctx.transcript()];
    let r = P::verify(&mut ts, std::slice::from_ref(st), std::slice::from_ref(proof), mode)?;
    if r.len() != 1 {
        return Err(ProofError::InvalidLength(format!("HARNESS: {} results for 1 proof", r.len())));
    }
    Ok(r[0].as_ref().map(|m| m.blindings().unwrap_or_default()))
}

pub fn hex32(b: &[u8; 32]) -> String {
    fg::hex(b)
}

pub fn scalar_hex(s: &Scalar) -> String {
    fg::hex(s.as_bytes())
}

/// Run a closure catching panics; Err(message) on panic
pub fn catch<T>(f: impl FnOnce() -> T) -> Result<T, String> {
    match std::panic::catch_unwind(std::panic::AssertUnwindSafe(f)) {
        Ok(v) => Ok(v),
        Err(e) => {
            let msg = if let Some(s) = e.downcast_ref::<&str>() {
                s.to_string()
            } else if let Some(s) = e.downcast_ref::<String>() {
                s.clone()
            } else {
                "panic".to_string()
            };
            Err(msg)
        },
    }
}

// ---------------------------------------------------------------------------------------------------------------
// cached parameters and observed library calls

type ParamsCache = Mutex<HashMap<(TypeId, Cfg), Arc<dyn Any + Send + Sync>>>;

fn params_cache() -> &'static ParamsCache {
    static C: OnceLock<ParamsCache> = OnceLock::new();
    C.get_or_init(|| Mutex::new(HashMap::new()))
}

/// Library parameters for (n, c, d) with the harness's default commitment generators, built once per process
/// (C18 checks separately that sharing and reusing parameter objects is unobservable)
pub fn params_cached<P: G>(cfg: &Cfg) -> RangeParameters<P> {
    let key = (TypeId::of::<P>(), Cfg::new(cfg.n, 0, cfg.c, cfg.d));
    if let Some(a) = params_cache().lock().unwrap().get(&key) {
        return (*a.clone().downcast::<RangeParameters<P>>().unwrap()).clone();
    }
    let p = P::params(cfg.n, cfg.c, P::pc_gens(cfg.d)).expect("valid lattice point");
    params_cache().lock().unwrap().insert(key, Arc::new(p.clone()));
    p
}

pub fn build_cached<P: G>(cfg: &Cfg, wit: &Wit) -> Result<Built<P>, ProofError> {
    let params = params_cached::<P>(cfg);
    let commitments = commitments_for(params.pc_gens(), wit)?;
    let statement = P::statement(params.clone(), commitments.clone(), wit.promises.clone(), wit.seed)?;
    let witness = witness_for(wit)?;
    Ok(Built {
        params,
        statement,
        witness,
        commitments,
    })
}

pub type Masks = Vec<Option<Vec<Scalar>>>;

/// Everything observable about one library verification call
pub struct Observed {
    /// Ok(masks) / Err(error) ; None if the call panicked
    pub result: Option<Result<Masks, ProofError>>,
    pub panic: Option<String>,
    /// every element compared with the identity during the call (F only)
    pub residuals: Vec<F>,
    pub trace: Vec<merlin::observe::Event>,
    pub ops: u64,
}

impl Observed {
    pub fn is_ok(&self) -> bool {
        matches!(self.result, Some(Ok(_)))
    }

    pub fn is_err(&self) -> bool {
        matches!(self.result, Some(Err(_)))
    }

    pub fn class(&self) -> String {
        match (&self.result, &self.panic) {
            (Some(Ok(_)), _) => "Ok".to_string(),
            (Some(Err(e)), _) => format!("Err:{}", crate::api::err_kind(e)),
            (None, Some(p)) => format!("PANIC:{}", p.chars().take(60).collect::<String>()),
            _ => "PANIC".to_string(),
        }
    }

    pub fn describe(&self) -> String {
        match (&self.result, &self.panic) {
            (Some(Ok(m)), _) => format!("Ok({} results)", m.len()),
            (Some(Err(e)), _) => format!("Err({})", crate::api::err_name(e)),
            (None, Some(p)) => format!("PANIC({})", p),
            _ => "PANIC".to_string(),
        }
    }
}

pub fn verify_observed<P: G>(
    sts: &[RangeStatement<P>],
    proofs: &[RangeProof<P>],
    ts: &mut [Transcript],
    mode: VerifyAction,
) -> Observed {
    fg::residuals_start();
    fg::ops_reset();
    merlin::observe::start();
    let r = catch(|| P::verify(ts, sts, proofs, mode));
    let trace = merlin::observe::take();
    let ops = fg::ops();
    let residuals = fg::residuals_take();
    match r {
        Ok(r) => Observed {
            result: Some(r.map(|v| {
                v.into_iter()
                    .map(|m| m.map(|m| m.blindings().unwrap_or_default()))
                    .collect()
            })),
            panic: None,
            residuals,
            trace,
            ops,
        },
        Err(p) => Observed {
            result: None,
            panic: Some(p),
            residuals,
            trace,
            ops,
        },
    }
}

pub fn verify_observed_one<P: G>(st: &RangeStatement<P>, proof: &RangeProof<P>, ctx: &Ctx, mode: VerifyAction) -> Observed {
    let mut ts = vec![ctx.transcript()];
    verify_observed(std::slice::from_ref(st), std::slice::from_ref(proof), &mut ts, mode)
}

/// The challenge bytes a call drew, in order, as scalars (from the merlin trace)
pub fn trace_challenges(trace: &[merlin::observe::Event]) -> Vec<(Vec<u8>, Scalar)> {
    trace
        .iter()
        .filter_map(|e| match &e.op {
            merlin::observe::Op::Challenge { label, out, .. } if out.len() == 64 => {
                let mut b = [0u8; 64];
                b.copy_from_slice(out);
                Some((label.clone(), Scalar::from_bytes_mod_order_wide(&b)))
            },
            _ => None,
        })
        .collect()
}

/// Nonces drawn from the transcript RNG during a call (64-byte fills reduced mod l), from the merlin trace
pub fn trace_rng_scalars(trace: &[merlin::observe::Event]) -> Vec<Scalar> {
    trace
        .iter()
        .filter_map(|e| match &e.op {
            merlin::observe::Op::RngFill { out } if out.len() == 64 => {
                let mut b = [0u8; 64];
                b.copy_from_slice(out);
                Some(Scalar::from_bytes_mod_order_wide(&b))
            },
            _ => None,
        })
        .collect()
}


/// Payload of the panic raised when an *honest* operation this case depends on (proving a valid witness) fails. That is
/// another property's finding (C01 / C06); the explorer turns it into a skipped case instead of a machinery error.
pub struct HonestPrecondition(pub String);

pub trait HonestExt<T> {
    fn honest(self) -> T;
}

impl<T> HonestExt<T> for Result<T, ProofError> {
    fn honest(self) -> T {
        match self {
            Ok(v) => v,
            Err(e) => std::panic::panic_any(HonestPrecondition(format!("an honest prove failed: {}", crate::api::err_name(&e)))),
        }
    }
}

/// Run a harness preparation step; `None` if an honest operation it depends on failed (see `HonestPrecondition`)
pub fn honest_scope<T>(f: impl FnOnce() -> T) -> Option<T> {
    match std::panic::catch_unwind(std::panic::AssertUnwindSafe(f)) {
        Ok(v) => Some(v),
        Err(e) if e.downcast_ref::<HonestPrecondition>().is_some() => None,
        Err(e) => std::panic::resume_unwind(e),
    }
}
