//! Reference model R: a deliberately boring, unoptimised Bulletproofs+ prover / verifier / transcript / nonce /
//! generator derivation, written from the paper (Chung, Han, Ju, Kim, Kim: Fig. 1 zk-WIP, Fig. 3 range argument) and
//! Tari RFC-0181 (extended commitments, minimum-value promises, aggregation, mask recovery, transcript layout).
//!
//! It shares no code with /repo: it uses merlin, blake2, sha3 and the primitive group operations of `api::G` only.
//! See DESIGN.md section 9 for the relation written out.

use blake2::Blake2bMac512;
use curve25519_dalek::scalar::Scalar;
use digest::FixedOutput;
use merlin::Transcript;
use sha3::{
    digest::{ExtendableOutput, Update, XofReader},
    Digest,
    Sha3_512,
    Shake256,
};

use crate::api::G;

// ---------------------------------------------------------------------------------------------------------------
// generators

/// The n vector generators of one party, kind = b'G' or b'H'
pub fn ref_party_gens<P: G>(kind: u8, party: u32, n: usize) -> Vec<P> {
    let mut shake = Shake256::default();
    shake.update(b"GeneratorsChain");
    shake.update(&[kind]);
    shake.update(&party.to_le_bytes());
    let mut reader = shake.finalize_xof();
    (0..n)
        .map(|_| {
            let mut b = [0u8; 64];
            reader.read(&mut b);
            P::g_from_uniform(&b)
        })
        .collect()
}

/// (Gi, Hi) flattened party by party, `parties` parties of `n` generators each
pub fn ref_gens<P: G>(n: usize, parties: usize) -> (Vec<P>, Vec<P>) {
    let mut gi = Vec::with_capacity(n * parties);
    let mut hi = Vec::with_capacity(n * parties);
    for j in 0..parties {
        gi.extend(ref_party_gens::<P>(b'G', j as u32, n));
        hi.extend(ref_party_gens::<P>(b'H', j as u32, n));
    }
    (gi, hi)
}

/// Ristretto blinding generator k (0-based): SHA3-512("RISTRETTO_MASKING_BASEPOINT_<k+1>") mapped to the group
pub fn ref_masking_basepoint<P: G>(k: usize) -> P {
    let label = format!("RISTRETTO_MASKING_BASEPOINT_{}", k + 1);
    let mut h = Sha3_512::new();
    Digest::update(&mut h, label.as_bytes());
    let out: [u8; 64] = h.finalize().into();
    P::g_from_uniform(&out)
}

// ---------------------------------------------------------------------------------------------------------------
// seed-derived nonces

pub fn ref_nonce(seed: &Scalar, label: &str, j: Option<u32>, k: Option<u32>) -> Scalar {
    let mut key = vec![0u8];
    key.extend_from_slice(seed.as_bytes());
    if let Some(j) = j {
        key.push(b'j');
        key.extend_from_slice(&j.to_le_bytes());
    }
    if let Some(k) = k {
        key.push(b'k');
        key.extend_from_slice(&k.to_le_bytes());
    }
    let mac = Blake2bMac512::new_with_salt_and_personal(&key, &[], label.as_bytes()).expect("blake2b parameters");
    let mut out = [0u8; 64];
    out.copy_from_slice(mac.finalize_fixed().as_slice());
    Scalar::from_bytes_mod_order_wide(&out)
}

// ---------------------------------------------------------------------------------------------------------------
// statement / proof in reference form

#[derive(Clone, Debug)]
pub struct RefStatement<P: G> {
    pub n: usize,
    pub h: P,
    pub g: Vec<P>,
    /// first n*m vector generators
    pub gi: Vec<P>,
    pub hi: Vec<P>,
    pub commitments: Vec<P>,
    pub promises: Vec<Option<u64>>,
}

impl<P: G> RefStatement<P> {
    pub fn m(&self) -> usize {
        self.commitments.len()
    }

    pub fn big_n(&self) -> usize {
        self.n * self.commitments.len()
    }

    pub fn d(&self) -> usize {
        self.g.len()
    }
}

#[derive(Clone, Debug, PartialEq)]
pub struct RefProof {
    pub ext: u8,
    pub d1: Vec<Scalar>,
    pub a: [u8; 32],
    pub a1: [u8; 32],
    pub b: [u8; 32],
    pub r1: Scalar,
    pub s1: Scalar,
    pub l: Vec<[u8; 32]>,
    pub r: Vec<[u8; 32]>,
}

const ELL: [u8; 32] = [
    0xed, 0xd3, 0xf5, 0x5c, 0x1a, 0x63, 0x12, 0x58, 0xd6, 0x9c, 0xf7, 0xa2, 0xde, 0xf9, 0xde, 0x14, 0, 0, 0, 0, 0, 0, 0,
    0, 0, 0, 0, 0, 0, 0, 0, 0x10,
];

/// little-endian comparison: is `b` (as a 256-bit integer) strictly below the group order?
pub fn is_canonical_scalar(b: &[u8; 32]) -> bool {
    for i in (0..32).rev() {
        if b[i] < ELL[i] {
            return true;
        }
        if b[i] > ELL[i] {
            return false;
        }
    }
    false
}

/// Independent acceptance predicate + decoder for the wire format (C15):
/// degree byte in 1..=6, then d scalars (d1), A, A1, B, r1, s1, then k >= 1 pairs (L, R); scalars canonical.
pub fn ref_decode(bytes: &[u8]) -> Option<RefProof> {
    let (&ext, rest) = bytes.split_first()?;
    if !(1..=6).contains(&ext) {
        return None;
    }
    if rest.len() % 32 != 0 {
        return None;
    }
    let count = rest.len() / 32;
    let d = ext as usize;
    if count < 5 + d + 2 {
        return None;
    }
    if (count - 5 - d) % 2 != 0 {
        return None;
    }
    let el = |i: usize| -> [u8; 32] {
        let mut b = [0u8; 32];
        b.copy_from_slice(&rest[32 * i..32 * i + 32]);
        b
    };
    let scalar = |i: usize| -> Option<Scalar> {
        let b = el(i);
        if !is_canonical_scalar(&b) {
            return None;
        }
        Some(Scalar::from_bytes_mod_order(b))
    };
    let mut d1 = Vec::new();
    for i in 0..d {
        d1.push(scalar(i)?);
    }
    let a = el(d);
    let a1 = el(d + 1);
    let b = el(d + 2);
    let r1 = scalar(d + 3)?;
    let s1 = scalar(d + 4)?;
    let k = (count - 5 - d) / 2;
    let mut l = Vec::new();
    let mut r = Vec::new();
    for j in 0..k {
        l.push(el(d + 5 + 2 * j));
        r.push(el(d + 5 + 2 * j + 1));
    }
    Some(RefProof {
        ext,
        d1,
        a,
        a1,
        b,
        r1,
        s1,
        l,
        r,
    })
}

/// Decoder without the k >= 1 clause (used where a zero-round proof has to be handled by the reference model)
pub fn ref_decode_allow_zero_rounds(bytes: &[u8]) -> Option<RefProof> {
    let (&ext, rest) = bytes.split_first()?;
    let d = ext as usize;
    if (1..=6).contains(&ext) && rest.len() == 32 * (5 + d) {
        let mut padded = bytes.to_vec();
        padded.extend_from_slice(&[1u8; 64]);
        let mut p = ref_decode(&padded)?;
        p.l.clear();
        p.r.clear();
        return Some(p);
    }
    ref_decode(bytes)
}

pub fn ref_encode(p: &RefProof) -> Vec<u8> {
    let mut out = vec![p.ext];
    for s in &p.d1 {
        out.extend_from_slice(s.as_bytes());
    }
    out.extend_from_slice(&p.a);
    out.extend_from_slice(&p.a1);
    out.extend_from_slice(&p.b);
    out.extend_from_slice(p.r1.as_bytes());
    out.extend_from_slice(p.s1.as_bytes());
    for (l, r) in p.l.iter().zip(p.r.iter()) {
        out.extend_from_slice(l);
        out.extend_from_slice(r);
    }
    out
}

// ---------------------------------------------------------------------------------------------------------------
// transcript

fn wide_challenge(t: &mut Transcript, label: &'static [u8]) -> Scalar {
    let mut buf = [0u8; 64];
    t.challenge_bytes(label, &mut buf);
    Scalar::from_bytes_mod_order_wide(&buf)
}

/// Absorb parameters and statement (RFC-0181 layout)
pub fn ref_transcript_start<P: G>(t: &mut Transcript, st: &RefStatement<P>) {
    t.append_message(b"dom-sep", b"Bulletproofs+ Range Proof");
    t.append_message(b"H", &st.h.g_compress());
    for g in &st.g {
        t.append_message(b"G", &g.g_compress());
    }
    t.append_message(b"N", &(st.n as u64).to_le_bytes());
    t.append_message(b"T", &(st.d() as u64).to_le_bytes());
    t.append_message(b"M", &(st.m() as u64).to_le_bytes());
    for c in &st.commitments {
        t.append_message(b"Ci", &c.g_compress());
    }
    for p in &st.promises {
        t.append_message(b"vi - minimum_value", &p.unwrap_or(0).to_le_bytes());
    }
}

pub fn ref_challenges_yz(t: &mut Transcript, a: &[u8; 32]) -> (Scalar, Scalar) {
    t.append_message(b"A", a);
    let y = wide_challenge(t, b"y");
    let z = wide_challenge(t, b"z");
    (y, z)
}

pub fn ref_challenge_round(t: &mut Transcript, l: &[u8; 32], r: &[u8; 32]) -> Scalar {
    t.append_message(b"L", l);
    t.append_message(b"R", r);
    wide_challenge(t, b"e")
}

pub fn ref_challenge_final(t: &mut Transcript, a1: &[u8; 32], b: &[u8; 32]) -> Scalar {
    t.append_message(b"A1", a1);
    t.append_message(b"B", b);
    wide_challenge(t, b"e")
}

#[derive(Clone, Debug, PartialEq)]
pub struct Challenges {
    pub y: Scalar,
    pub z: Scalar,
    pub rounds: Vec<Scalar>,
    pub e: Scalar,
}

/// All challenges of a proof under a statement, from a caller-initialised transcript
pub fn ref_challenges<P: G>(t: &mut Transcript, st: &RefStatement<P>, proof: &RefProof) -> Challenges {
    ref_transcript_start(t, st);
    let (y, z) = ref_challenges_yz(t, &proof.a);
    let rounds = proof
        .l
        .iter()
        .zip(proof.r.iter())
        .map(|(l, r)| ref_challenge_round(t, l, r))
        .collect();
    let e = ref_challenge_final(t, &proof.a1, &proof.b);
    Challenges { y, z, rounds, e }
}

// ---------------------------------------------------------------------------------------------------------------
// prover

#[derive(Clone, Debug, PartialEq)]
pub struct Nonces {
    pub alpha: Vec<Scalar>,
    /// dl[round][k]
    pub dl: Vec<Vec<Scalar>>,
    pub dr: Vec<Vec<Scalar>>,
    pub delta: Vec<Scalar>,
    pub eta: Vec<Scalar>,
    pub r: Scalar,
    pub s: Scalar,
}

impl Nonces {
    pub fn all(&self) -> Vec<(String, Scalar)> {
        let mut v = Vec::new();
        for (k, x) in self.alpha.iter().enumerate() {
            v.push((format!("alpha[{}]", k), *x));
        }
        for (j, row) in self.dl.iter().enumerate() {
            for (k, x) in row.iter().enumerate() {
                v.push((format!("dL[{}][{}]", j, k), *x));
            }
        }
        for (j, row) in self.dr.iter().enumerate() {
            for (k, x) in row.iter().enumerate() {
                v.push((format!("dR[{}][{}]", j, k), *x));
            }
        }
        for (k, x) in self.delta.iter().enumerate() {
            v.push((format!("d[{}]", k), *x));
        }
        for (k, x) in self.eta.iter().enumerate() {
            v.push((format!("eta[{}]", k), *x));
        }
        v.push(("r".to_string(), self.r));
        v.push(("s".to_string(), self.s));
        v
    }

    /// The seed-derived nonces of RFC-0181 (r and s stay caller-chosen)
    pub fn from_seed(seed: &Scalar, rounds: usize, d: usize, r: Scalar, s: Scalar) -> Nonces {
        Nonces {
            alpha: (0..d).map(|k| ref_nonce(seed, "alpha", None, Some(k as u32))).collect(),
            dl: (0..rounds)
                .map(|j| (0..d).map(|k| ref_nonce(seed, "dL", Some(j as u32), Some(k as u32))).collect())
                .collect(),
            dr: (0..rounds)
                .map(|j| (0..d).map(|k| ref_nonce(seed, "dR", Some(j as u32), Some(k as u32))).collect())
                .collect(),
            delta: (0..d).map(|k| ref_nonce(seed, "d", None, Some(k as u32))).collect(),
            eta: (0..d).map(|k| ref_nonce(seed, "eta", None, Some(k as u32))).collect(),
            r,
            s,
        }
    }
}

fn pow(x: &Scalar, e: usize) -> Scalar {
    let mut r = Scalar::ONE;
    for _ in 0..e {
        r *= x;
    }
    r
}

/// [x^0, x^1, ..., x^(count-1)] by repeated multiplication
pub fn powers(x: &Scalar, count: usize) -> Vec<Scalar> {
    let mut v = Vec::with_capacity(count);
    let mut acc = Scalar::ONE;
    for _ in 0..count {
        v.push(acc);
        acc *= x;
    }
    v
}

/// d_{j*n+i} = z^(2(j+1)) * 2^i, by double loop
pub fn ref_d_vector(z: &Scalar, n: usize, m: usize) -> Vec<Scalar> {
    let two_pow = powers(&Scalar::from(2u8), n);
    let z_pow = powers(z, 2 * m + 1);
    let mut d = Vec::with_capacity(n * m);
    for j in 0..m {
        for i in 0..n {
            d.push(z_pow[2 * (j + 1)] * two_pow[i]);
        }
    }
    d
}

/// Bits (little-endian, n per value) of value - promise; None if promise > value
pub fn honest_digits(n: usize, values: &[u64], promises: &[Option<u64>]) -> Option<Vec<Scalar>> {
    let mut out = Vec::new();
    for (v, p) in values.iter().zip(promises.iter()) {
        let off = v.checked_sub(p.unwrap_or(0))?;
        for i in 0..n {
            out.push(Scalar::from((off >> i) & 1));
        }
    }
    Some(out)
}

pub struct ProverOutput {
    pub proof: RefProof,
    pub challenges: Challenges,
}

/// Literal prover. `digits` is a_L (normally bits of value - promise; the caller may pass non-bit digits to build the
/// textbook forgery attempt), `gammas[j][k]` the blinding components of commitment j.
pub fn ref_prove<P: G>(
    t: &mut Transcript,
    st: &RefStatement<P>,
    digits: &[Scalar],
    gammas: &[Vec<Scalar>],
    nonces: &Nonces,
) -> ProverOutput {
    let n = st.n;
    let m = st.m();
    let big_n = n * m;
    let d = st.d();
    assert_eq!(digits.len(), big_n);
    assert_eq!(gammas.len(), m);
    ref_transcript_start(t, st);

    let a_l: Vec<Scalar> = digits.to_vec();
    let a_r: Vec<Scalar> = digits.iter().map(|x| x - Scalar::ONE).collect();

    // A = <a_L, G> + <a_R, H> + sum alpha_k G_k
    let mut a_scalars: Vec<Scalar> = Vec::new();
    let mut a_points: Vec<P> = Vec::new();
    for i in 0..big_n {
        a_scalars.push(a_l[i]);
        a_points.push(st.gi[i].clone());
        a_scalars.push(a_r[i]);
        a_points.push(st.hi[i].clone());
    }
    for k in 0..d {
        a_scalars.push(nonces.alpha[k]);
        a_points.push(st.g[k].clone());
    }
    let a_pt = P::g_msm(&a_scalars, &a_points);
    let a_c = a_pt.g_compress();
    let (y, z) = ref_challenges_yz(t, &a_c);

    let dvec = ref_d_vector(&z, n, m);
    let y_pow = powers(&y, big_n + 2);
    let z_pow = powers(&z, 2 * m + 1);
    let mut a: Vec<Scalar> = a_l.iter().map(|x| x - z).collect();
    let mut b: Vec<Scalar> = (0..big_n).map(|i| a_r[i] + dvec[i] * y_pow[big_n - i] + z).collect();
    let mut alpha: Vec<Scalar> = (0..d)
        .map(|k| {
            let mut acc = nonces.alpha[k];
            for j in 0..m {
                let g = gammas[j].get(k).copied().unwrap_or(Scalar::ZERO);
                acc += y_pow[big_n + 1] * z_pow[2 * (j + 1)] * g;
            }
            acc
        })
        .collect();

    let mut gv: Vec<P> = st.gi.clone();
    let mut hv: Vec<P> = st.hi.clone();
    let mut ls = Vec::new();
    let mut rs = Vec::new();
    let mut round_challenges = Vec::new();
    let mut round = 0usize;
    while a.len() > 1 {
        let h = a.len() / 2;
        let yh = y_pow[h];
        let yh_inv = yh.invert();
        let mut c_l = Scalar::ZERO;
        let mut c_r = Scalar::ZERO;
        for i in 0..h {
            c_l += a[i] * y_pow[i + 1] * b[h + i];
            c_r += (yh * a[h + i]) * y_pow[i + 1] * b[i];
        }
        let (mut ls_s, mut ls_p, mut rs_s, mut rs_p) = (vec![c_l], vec![st.h.clone()], vec![c_r], vec![st.h.clone()]);
        for i in 0..h {
            ls_s.push(yh_inv * a[i]);
            ls_p.push(gv[h + i].clone());
            ls_s.push(b[h + i]);
            ls_p.push(hv[i].clone());
            rs_s.push(yh * a[h + i]);
            rs_p.push(gv[i].clone());
            rs_s.push(b[i]);
            rs_p.push(hv[h + i].clone());
        }
        for k in 0..d {
            ls_s.push(nonces.dl[round][k]);
            ls_p.push(st.g[k].clone());
            rs_s.push(nonces.dr[round][k]);
            rs_p.push(st.g[k].clone());
        }
        let l_pt = P::g_msm(&ls_s, &ls_p);
        let r_pt = P::g_msm(&rs_s, &rs_p);
        let l_c = l_pt.g_compress();
        let r_c = r_pt.g_compress();
        let e = ref_challenge_round(t, &l_c, &r_c);
        let e_inv = e.invert();
        let mut gv2 = Vec::with_capacity(h);
        let mut hv2 = Vec::with_capacity(h);
        let mut a2 = Vec::with_capacity(h);
        let mut b2 = Vec::with_capacity(h);
        for i in 0..h {
            gv2.push(gv[i].g_mul(&e_inv).g_add(&gv[h + i].g_mul(&(e * yh_inv))));
            hv2.push(hv[i].g_mul(&e).g_add(&hv[h + i].g_mul(&e_inv)));
            a2.push(e * a[i] + e_inv * yh * a[h + i]);
            b2.push(e_inv * b[i] + e * b[h + i]);
        }
        for k in 0..d {
            alpha[k] += e * e * nonces.dl[round][k] + e_inv * e_inv * nonces.dr[round][k];
        }
        gv = gv2;
        hv = hv2;
        a = a2;
        b = b2;
        ls.push(l_c);
        rs.push(r_c);
        round_challenges.push(e);
        round += 1;
    }

    let (r, s) = (nonces.r, nonces.s);
    let mut a1 = gv[0].g_mul(&r).g_add(&hv[0].g_mul(&s));
    a1 = a1.g_add(&st.h.g_mul(&(r * y * b[0] + s * y * a[0])));
    let mut b_pt = st.h.g_mul(&(r * y * s));
    for k in 0..d {
        a1 = a1.g_add(&st.g[k].g_mul(&nonces.delta[k]));
        b_pt = b_pt.g_add(&st.g[k].g_mul(&nonces.eta[k]));
    }
    let a1_c = a1.g_compress();
    let b_c = b_pt.g_compress();
    let e = ref_challenge_final(t, &a1_c, &b_c);
    let r1 = r + a[0] * e;
    let s1 = s + b[0] * e;
    let d1: Vec<Scalar> = (0..d).map(|k| nonces.eta[k] + nonces.delta[k] * e + alpha[k] * e * e).collect();

    ProverOutput {
        proof: RefProof {
            ext: d as u8,
            d1,
            a: a_c,
            a1: a1_c,
            b: b_c,
            r1,
            s1,
            l: ls,
            r: rs,
        },
        challenges: Challenges {
            y,
            z,
            rounds: round_challenges,
            e,
        },
    }
}

// ---------------------------------------------------------------------------------------------------------------
// verifier

#[derive(Clone, Debug, PartialEq)]
pub enum RefVerdict {
    Accept,
    /// shape / range / identity / decoding refusal before the algebraic check
    Refuse(&'static str),
    /// algebraic check fails
    Reject,
}

impl RefVerdict {
    pub fn accepts(&self) -> bool {
        *self == RefVerdict::Accept
    }
}

/// Coefficient of the original generator i in the folded generator, by applying the folding rule round by round
pub fn folded_coeffs(big_n: usize, y: &Scalar, rounds: &[Scalar]) -> (Vec<Scalar>, Vec<Scalar>) {
    let mut gc = vec![Scalar::ONE; big_n];
    let mut hc = vec![Scalar::ONE; big_n];
    // per-round constants: (h, e, e^-1, e * y^-h)
    let mut consts = Vec::new();
    let mut len = big_n;
    for e in rounds {
        let h = len / 2;
        consts.push((h, *e, e.invert(), e * pow(y, h).invert()));
        len = h;
    }
    for i in 0..big_n {
        let mut idx = i;
        for (h, e, e_inv, e_yh_inv) in &consts {
            if idx < *h {
                // G' = e^-1 G_lo + ..., H' = e H_lo + ...
                gc[i] *= e_inv;
                hc[i] *= e;
            } else {
                // ... + e y^-h G_hi, ... + e^-1 H_hi
                gc[i] *= e_yh_inv;
                hc[i] *= e_inv;
                idx -= *h;
            }
        }
    }
    (gc, hc)
}

pub struct ResidualParts<P: G> {
    pub points: Vec<P>,
    pub scalars: Vec<Scalar>,
}

/// The linear form that must vanish, as (scalar, point) pairs over: Gi, Hi, H, G_k, A, A1, B, L_j, R_j, V_j.
/// `proof_points` are the decompressed proof points (A, A1, B, L.., R..).
#[allow(clippy::too_many_arguments)]
pub fn ref_residual_terms<P: G>(
    st: &RefStatement<P>,
    proof: &RefProof,
    ch: &Challenges,
    a_pt: &P,
    a1_pt: &P,
    b_pt: &P,
    l_pts: &[P],
    r_pts: &[P],
) -> ResidualParts<P> {
    let n = st.n;
    let m = st.m();
    let big_n = n * m;
    let (y, z, e) = (ch.y, ch.z, ch.e);
    let e2 = e * e;
    let dvec = ref_d_vector(&z, n, m);
    let (gc, hc) = folded_coeffs(big_n, &y, &ch.rounds);
    let y_pow = powers(&y, big_n + 2);
    let z_pow = powers(&z, 2 * m + 1);

    let mut points: Vec<P> = Vec::new();
    let mut scalars: Vec<Scalar> = Vec::new();

    // e^2 * A_hat: A - z sum Gi + sum (d_i y^(N-i) + z) Hi + y^(N+1) sum_j z^(2(j+1)) (V_j - p_j H) + [...] H
    // minus r1 e G' and s1 e H'
    for i in 0..big_n {
        points.push(st.gi[i].clone());
        scalars.push(e2 * (-z) - proof.r1 * e * gc[i]);
    }
    for i in 0..big_n {
        points.push(st.hi[i].clone());
        scalars.push(e2 * (dvec[i] * y_pow[big_n - i] + z) - proof.s1 * e * hc[i]);
    }
    let mut y_sum = Scalar::ZERO;
    for i in 1..=big_n {
        y_sum += y_pow[i];
    }
    let mut d_sum = Scalar::ZERO;
    for x in &dvec {
        d_sum += x;
    }
    let y_n1 = y_pow[big_n + 1];
    let mut h_scalar = e2 * ((z - z * z) * y_sum - z * y_n1 * d_sum);
    for j in 0..m {
        let zj = z_pow[2 * (j + 1)];
        points.push(st.commitments[j].clone());
        scalars.push(e2 * y_n1 * zj);
        if let Some(p) = st.promises[j] {
            h_scalar -= e2 * y_n1 * zj * Scalar::from(p);
        }
    }
    h_scalar -= proof.r1 * y * proof.s1;
    points.push(st.h.clone());
    scalars.push(h_scalar);
    for k in 0..st.d() {
        points.push(st.g[k].clone());
        scalars.push(-proof.d1.get(k).copied().unwrap_or(Scalar::ZERO));
    }
    points.push(a_pt.clone());
    scalars.push(e2);
    points.push(a1_pt.clone());
    scalars.push(e);
    points.push(b_pt.clone());
    scalars.push(Scalar::ONE);
    for (j, ej) in ch.rounds.iter().enumerate() {
        points.push(l_pts[j].clone());
        scalars.push(e2 * ej * ej);
        points.push(r_pts[j].clone());
        let inv = ej.invert();
        scalars.push(e2 * inv * inv);
    }
    ResidualParts { points, scalars }
}

pub struct RefCheck<P: G> {
    pub verdict: RefVerdict,
    pub challenges: Option<Challenges>,
    pub residual: Option<P>,
}

fn log2_exact(x: usize) -> Option<usize> {
    if x == 0 || x & (x - 1) != 0 {
        return None;
    }
    Some(x.trailing_zeros() as usize)
}

/// Full reference verification of one (statement, proof, transcript) triple
pub fn ref_verify<P: G>(t: &mut Transcript, st: &RefStatement<P>, proof: &RefProof) -> RefCheck<P> {
    let refuse = |why| RefCheck {
        verdict: RefVerdict::Refuse(why),
        challenges: None,
        residual: None,
    };
    let n = st.n;
    let m = st.m();
    let big_n = n * m;
    // shape
    if proof.d1.len() != st.d() || proof.ext as usize != st.d() {
        return refuse("extension degree");
    }
    if proof.l.len() != proof.r.len() {
        return refuse("L/R count");
    }
    match log2_exact(big_n) {
        Some(k) if k == proof.l.len() => {},
        _ => return refuse("round count"),
    }
    // promises must fit in the bit length
    for p in st.promises.iter().flatten() {
        if n < 64 && (*p >> n) > 0 {
            return refuse("promise range");
        }
    }
    // no identity among absorbed points
    let zero = [0u8; 32];
    if st.h.g_compress() == zero || st.g.iter().any(|g| g.g_compress() == zero) {
        return refuse("identity generator");
    }
    if proof.a == zero || proof.a1 == zero || proof.b == zero || proof.l.contains(&zero) || proof.r.contains(&zero) {
        return refuse("identity proof point");
    }
    let ch = ref_challenges(t, st, proof);
    if ch.y == Scalar::ZERO || ch.z == Scalar::ZERO || ch.e == Scalar::ZERO || ch.rounds.contains(&Scalar::ZERO) {
        return refuse("zero challenge");
    }
    // decode points
    let dec = |b: &[u8; 32]| P::g_decompress(b);
    let (a_pt, a1_pt, b_pt) = match (dec(&proof.a), dec(&proof.a1), dec(&proof.b)) {
        (Some(a), Some(a1), Some(b)) => (a, a1, b),
        _ => return refuse("undecodable point"),
    };
    let l_pts: Option<Vec<P>> = proof.l.iter().map(dec).collect();
    let r_pts: Option<Vec<P>> = proof.r.iter().map(dec).collect();
    let (l_pts, r_pts) = match (l_pts, r_pts) {
        (Some(l), Some(r)) => (l, r),
        _ => return refuse("undecodable point"),
    };
    let parts = ref_residual_terms(st, proof, &ch, &a_pt, &a1_pt, &b_pt, &l_pts, &r_pts);
    let residual = P::g_msm(&parts.scalars, &parts.points);
    let verdict = if residual == P::g_identity() {
        RefVerdict::Accept
    } else {
        RefVerdict::Reject
    };
    RefCheck {
        verdict,
        challenges: Some(ch),
        residual: Some(residual),
    }
}

/// gamma_k = ((d1_k - eta_k - e delta_k) e^-2 - alpha_k - sum_j (e_j^2 dL_jk + e_j^-2 dR_jk)) / (z^2 y^(N+1))
pub fn ref_recover_mask(proof: &RefProof, ch: &Challenges, big_n: usize, seed: &Scalar) -> Vec<Scalar> {
    let d = proof.d1.len();
    let nonces = Nonces::from_seed(seed, ch.rounds.len(), d, Scalar::ZERO, Scalar::ZERO);
    let e2_inv = (ch.e * ch.e).invert();
    (0..d)
        .map(|k| {
            let mut acc = (proof.d1[k] - nonces.eta[k] - ch.e * nonces.delta[k]) * e2_inv - nonces.alpha[k];
            for (j, ej) in ch.rounds.iter().enumerate() {
                let inv = ej.invert();
                acc -= ej * ej * nonces.dl[j][k] + inv * inv * nonces.dr[j][k];
            }
            acc * (ch.z * ch.z * pow(&ch.y, big_n + 1)).invert()
        })
        .collect()
}
