//! Proof mutation menu (single alterations of a proof's wire form), shared by C02, C05, C10, C16

use curve25519_dalek::scalar::Scalar;

use crate::{api::G, refbp::RefProof};

#[derive(Clone, Debug, PartialEq)]
pub enum SPos {
    R1,
    S1,
    D1(usize),
}

#[derive(Clone, Debug, PartialEq)]
pub enum PPos {
    A,
    A1,
    B,
    L(usize),
    R(usize),
}

#[derive(Clone, Debug, PartialEq)]
pub enum Mut {
    ScalarAdd1(SPos),
    ScalarZero(SPos),
    ScalarNeg(SPos),
    ScalarCopy(SPos, SPos),
    /// the same value mod l written non-canonically (s + l as a 256-bit integer)
    ScalarPlusL(SPos),
    PointIdentity(PPos),
    PointUndecodable(PPos),
    /// flip bit 255 of the point's encoding (a canonical Ristretto encoding never has it set: the result is another byte
    /// string, which either does not decode or is another element)
    PointTopBit(PPos),
    PointPlusH(PPos),
    PointCopy(PPos, PPos),
    SwapLR(usize),
    DropRound,
    DupRound,
    /// append this many copies of the last (L, R) pair (round counts at and beyond the machine word size)
    AppendRounds(usize),
    ExtTag(u8),
    /// the proof re-encoded under the next higher extension degree with one more response scalar appended
    DegreeUp,
    /// ... under the next lower degree with the last response scalar removed
    DegreeDown,
}

pub const UNDECODABLE: [u8; 32] = [0xff; 32];

fn sget(p: &RefProof, pos: &SPos) -> Scalar {
    match pos {
        SPos::R1 => p.r1,
        SPos::S1 => p.s1,
        SPos::D1(k) => p.d1[*k],
    }
}

fn sset(p: &mut RefProof, pos: &SPos, v: Scalar) {
    match pos {
        SPos::R1 => p.r1 = v,
        SPos::S1 => p.s1 = v,
        SPos::D1(k) => p.d1[*k] = v,
    }
}

pub fn pget(p: &RefProof, pos: &PPos) -> [u8; 32] {
    match pos {
        PPos::A => p.a,
        PPos::A1 => p.a1,
        PPos::B => p.b,
        PPos::L(j) => p.l[*j],
        PPos::R(j) => p.r[*j],
    }
}

pub fn pset(p: &mut RefProof, pos: &PPos, v: [u8; 32]) {
    match pos {
        PPos::A => p.a = v,
        PPos::A1 => p.a1 = v,
        PPos::B => p.b = v,
        PPos::L(j) => p.l[*j] = v,
        PPos::R(j) => p.r[*j] = v,
    }
}

pub fn scalar_positions(p: &RefProof) -> Vec<SPos> {
    let mut v = vec![SPos::R1, SPos::S1];
    v.extend((0..p.d1.len()).map(SPos::D1));
    v
}

pub fn point_positions(p: &RefProof) -> Vec<PPos> {
    let mut v = vec![PPos::A, PPos::A1, PPos::B];
    for j in 0..p.l.len() {
        v.push(PPos::L(j));
        v.push(PPos::R(j));
    }
    v
}

/// Every single alteration of the proof (full menu), or one per component class (reduced)
pub fn menu(p: &RefProof, reduced: bool) -> Vec<Mut> {
    let mut out = Vec::new();
    let sp = scalar_positions(p);
    let pp = point_positions(p);
    if reduced {
        out.push(Mut::ScalarAdd1(SPos::R1));
        out.push(Mut::ScalarZero(SPos::S1));
        out.push(Mut::ScalarAdd1(SPos::D1(p.d1.len() - 1)));
        out.push(Mut::PointPlusH(PPos::A));
        out.push(Mut::PointIdentity(PPos::A1));
        out.push(Mut::PointUndecodable(PPos::B));
        if !p.l.is_empty() {
            out.push(Mut::PointPlusH(PPos::L(p.l.len() - 1)));
            out.push(Mut::SwapLR(0));
        }
        return out;
    }
    for s in &sp {
        out.push(Mut::ScalarAdd1(s.clone()));
        out.push(Mut::ScalarZero(s.clone()));
        out.push(Mut::ScalarNeg(s.clone()));
        out.push(Mut::ScalarPlusL(s.clone()));
        // value of another scalar of the proof
        let other = sp.iter().find(|o| *o != s && sget(p, o) != sget(p, s));
        if let Some(o) = other {
            out.push(Mut::ScalarCopy(s.clone(), o.clone()));
        }
    }
    for q in &pp {
        out.push(Mut::PointIdentity(q.clone()));
        out.push(Mut::PointUndecodable(q.clone()));
        out.push(Mut::PointTopBit(q.clone()));
        out.push(Mut::PointPlusH(q.clone()));
        let other = pp.iter().find(|o| *o != q && pget(p, o) != pget(p, q));
        if let Some(o) = other {
            out.push(Mut::PointCopy(q.clone(), o.clone()));
        }
    }
    for j in 0..p.l.len() {
        out.push(Mut::SwapLR(j));
    }
    if p.l.len() >= 2 {
        out.push(Mut::DropRound);
    }
    if !p.l.is_empty() {
        out.push(Mut::DupRound);
    }
    if !p.l.is_empty() {
        for target in [31usize, 32, 63, 64, 65, 128, 256] {
            if target > p.l.len() + 1 {
                out.push(Mut::AppendRounds(target - p.l.len()));
            }
        }
    }
    if p.ext < 6 {
        out.push(Mut::DegreeUp);
    }
    if p.ext > 1 {
        out.push(Mut::DegreeDown);
    }
    // every other value of the degree byte (a decoder that reduces the byte, masks it or indexes a table with it aliases some)
    for t in 0..=255u8 {
        if t != p.ext {
            out.push(Mut::ExtTag(t));
        }
    }
    out
}

/// Apply a mutation; returns the mutated wire bytes (the ExtTag mutation only rewrites the first byte)
pub fn apply<P: G>(p: &RefProof, m: &Mut, h: &P) -> Option<Vec<u8>> {
    let mut q = p.clone();
    match m {
        Mut::ScalarAdd1(s) => {
            let v = sget(&q, s) + Scalar::ONE;
            sset(&mut q, s, v)
        },
        Mut::ScalarZero(s) => {
            if sget(&q, s) == Scalar::ZERO {
                return None;
            }
            sset(&mut q, s, Scalar::ZERO)
        },
        Mut::ScalarNeg(s) => {
            let v = -sget(&q, s);
            if v == sget(&q, s) {
                return None;
            }
            sset(&mut q, s, v)
        },
        Mut::ScalarCopy(s, from) => {
            let v = sget(&q, from);
            sset(&mut q, s, v)
        },
        Mut::ScalarPlusL(s) => {
            // rewrite the 32 bytes of that scalar in the encoded proof as s + l (same residue, other bytes)
            const ELL: [u8; 32] = [
                0xed, 0xd3, 0xf5, 0x5c, 0x1a, 0x63, 0x12, 0x58, 0xd6, 0x9c, 0xf7, 0xa2, 0xde, 0xf9, 0xde, 0x14, 0, 0, 0, 0, 0, 0, 0, 0, 0,
                0, 0, 0, 0, 0, 0, 0x10,
            ];
            let v = sget(&q, s).to_bytes();
            let mut out = [0u8; 32];
            let mut carry = 0u16;
            for i in 0..32 {
                let t = v[i] as u16 + ELL[i] as u16 + carry;
                out[i] = (t & 0xff) as u8;
                carry = t >> 8;
            }
            if carry != 0 {
                return None;
            }
            let mut b = crate::refbp::ref_encode(&q);
            let d = q.d1.len();
            let element = match s {
                SPos::D1(k) => *k,
                SPos::R1 => d + 3,
                SPos::S1 => d + 4,
            };
            b[1 + 32 * element..1 + 32 * element + 32].copy_from_slice(&out);
            return Some(b);
        },
        Mut::PointIdentity(pos) => pset(&mut q, pos, [0u8; 32]),
        Mut::PointUndecodable(pos) => pset(&mut q, pos, UNDECODABLE),
        Mut::PointTopBit(pos) => {
            let mut v = pget(&q, pos);
            v[31] ^= 0x80;
            pset(&mut q, pos, v)
        },
        Mut::PointPlusH(pos) => {
            let pt = P::g_decompress(&pget(&q, pos))?;
            pset(&mut q, pos, pt.g_add(h).g_compress())
        },
        Mut::PointCopy(pos, from) => {
            let v = pget(&q, from);
            pset(&mut q, pos, v)
        },
        Mut::SwapLR(j) => {
            if q.l[*j] == q.r[*j] {
                return None;
            }
            std::mem::swap(&mut q.l[*j], &mut q.r[*j]);
        },
        Mut::DropRound => {
            q.l.pop();
            q.r.pop();
        },
        Mut::DupRound => {
            let l = *q.l.last().unwrap();
            let r = *q.r.last().unwrap();
            q.l.push(l);
            q.r.push(r);
        },
        Mut::DegreeUp => {
            q.ext += 1;
            q.d1.push(Scalar::from(5u8));
        },
        Mut::DegreeDown => {
            q.ext -= 1;
            q.d1.pop();
        },
        Mut::AppendRounds(k) => {
            let l = *q.l.last()?;
            let r = *q.r.last()?;
            for _ in 0..*k {
                q.l.push(l);
                q.r.push(r);
            }
        },
        Mut::ExtTag(t) => {
            let mut b = crate::refbp::ref_encode(&q);
            b[0] = *t;
            return Some(b);
        },
    }
    Some(crate::refbp::ref_encode(&q))
}
