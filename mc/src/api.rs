//! One trait (`G`) giving monomorphic access to the library's generic API for the two instantiations used by the
//! checks (Ristretto: the shipped one; `F`: the free module), plus the primitive group operations the reference model
//! needs, and the harness-owned prover RNG (`HRng`).

use std::fmt::Debug;

use curve25519_dalek::{
    constants::RISTRETTO_BASEPOINT_POINT,
    ristretto::{CompressedRistretto, RistrettoPoint},
    scalar::Scalar,
    traits::{Identity, VartimeMultiscalarMul, VartimePrecomputedMultiscalarMul},
};
use merlin::Transcript;
use rand_chacha::ChaCha12Rng;
use rand_core::{CryptoRng, RngCore, SeedableRng};
use tari_bulletproofs_plus::{
    errors::ProofError,
    extended_mask::ExtendedMask,
    generators::pedersen_gens::{ExtensionDegree, PedersenGens},
    range_parameters::RangeParameters,
    range_proof::{RangeProof, VerifyAction},
    range_statement::RangeStatement,
    range_witness::RangeWitness,
    traits::{Compressable, Decompressable, FixedBytesRepr, FromUniformBytes, Precomputable},
};

use crate::fg::{self, CF, F};

// ---------------------------------------------------------------------------------------------------------------
// harness-owned RNG (the prover's external randomness is an environment seam)

#[derive(Clone, Debug)]
pub enum HRng {
    /// healthy generator
    ChaCha(ChaCha12Rng),
    /// fault: every byte zero
    Zero,
    /// fault: every byte the same constant
    Const(u8),
    /// fault: output repeats with a short period (alternating 32-byte blocks)
    Period2(u64),
}

impl HRng {
    pub fn chacha(seed: u64) -> HRng {
        HRng::ChaCha(ChaCha12Rng::seed_from_u64(seed))
    }

    pub fn from_model(name: &str) -> HRng {
        match name {
            "chacha-a" => HRng::chacha(0xA11CE),
            "chacha-b" => HRng::chacha(0xB0B),
            "chacha-c" => HRng::chacha(0xC0FFEE),
            "zero" => HRng::Zero,
            "const5a" => HRng::Const(0x5a),
            "period2" => HRng::Period2(0),
            _ => panic!("unknown rng model {}", name),
        }
    }
}

impl RngCore for HRng {
    fn next_u32(&mut self) -> u32 {
        rand_core::impls::next_u32_via_fill(self)
    }

    fn next_u64(&mut self) -> u64 {
        rand_core::impls::next_u64_via_fill(self)
    }

    fn fill_bytes(&mut self, dest: &mut [u8]) {
        match self {
            HRng::ChaCha(r) => r.fill_bytes(dest),
            HRng::Zero => dest.iter_mut().for_each(|b| *b = 0),
            HRng::Const(c) => dest.iter_mut().for_each(|b| *b = *c),
            HRng::Period2(calls) => {
                let v = if *calls % 2 == 0 { 0x11 } else { 0xee };
                *calls += 1;
                dest.iter_mut().for_each(|b| *b = v)
            },
        }
    }

    fn try_fill_bytes(&mut self, dest: &mut [u8]) -> Result<(), rand_core::Error> {
        self.fill_bytes(dest);
        Ok(())
    }
}

impl CryptoRng for HRng {}

pub fn ext(d: usize) -> ExtensionDegree {
    ExtensionDegree::try_from(d).expect("extension degree 1..=6")
}

pub fn err_name(e: &ProofError) -> String {
    match e {
        ProofError::VerificationFailed(s) => format!("VerificationFailed({})", s),
        ProofError::InvalidArgument(s) => format!("InvalidArgument({})", s),
        ProofError::InvalidLength(s) => format!("InvalidLength({})", s),
        ProofError::InvalidBlake2b => "InvalidBlake2b".to_string(),
        ProofError::SizeOverflow => "SizeOverflow".to_string(),
    }
}

pub fn err_kind(e: &ProofError) -> &'static str {
    match e {
        ProofError::VerificationFailed(_) => "VerificationFailed",
        ProofError::InvalidArgument(_) => "InvalidArgument",
        ProofError::InvalidLength(_) => "InvalidLength",
        ProofError::InvalidBlake2b => "InvalidBlake2b",
        ProofError::SizeOverflow => "SizeOverflow",
    }
}

// ---------------------------------------------------------------------------------------------------------------

pub trait G:
    Compressable<Compressed: Send + Sync + Debug + PartialEq + FixedBytesRepr>
    + Precomputable
    + FromUniformBytes
    + Clone
    + PartialEq
    + Debug
    + Send
    + Sync
    + 'static
{
    const NAME: &'static str;
    const IS_F: bool;

    // --- library API, monomorphic -----------------------------------------------------------------------------
    /// The Pedersen generators the harness uses for this group (Ristretto: the library's own constructor)
    fn pc_gens(d: usize) -> PedersenGens<Self>;
    fn params(n: usize, c: usize, pc: PedersenGens<Self>) -> Result<RangeParameters<Self>, ProofError>;
    fn statement(
        p: RangeParameters<Self>,
        cs: Vec<Self>,
        promises: Vec<Option<u64>>,
        seed: Option<Scalar>,
    ) -> Result<RangeStatement<Self>, ProofError>;
    fn commit(pc: &PedersenGens<Self>, v: &Scalar, r: &[Scalar]) -> Result<Self, ProofError>;
    fn prove(
        t: &mut Transcript,
        st: &RangeStatement<Self>,
        w: &RangeWitness,
        rng: &mut HRng,
    ) -> Result<RangeProof<Self>, ProofError>;
    /// The `prove` entry point that takes its randomness from the operating system
    fn prove_os(t: &mut Transcript, st: &RangeStatement<Self>, w: &RangeWitness) -> Result<RangeProof<Self>, ProofError>;
    fn verify(
        ts: &mut [Transcript],
        sts: &[RangeStatement<Self>],
        ps: &[RangeProof<Self>],
        a: VerifyAction,
    ) -> Result<Vec<Option<ExtendedMask>>, ProofError>;
    fn to_bytes(p: &RangeProof<Self>) -> Vec<u8>;
    fn from_bytes(b: &[u8]) -> Result<RangeProof<Self>, ProofError>;
    fn proof_eq(a: &RangeProof<Self>, b: &RangeProof<Self>) -> bool;
    fn proof_clone(a: &RangeProof<Self>) -> RangeProof<Self>;
    fn proof_ext(a: &RangeProof<Self>) -> usize;
    fn ext_from_bytes(b: &[u8]) -> Result<ExtensionDegree, ProofError>;
    fn bincode_ser(a: &RangeProof<Self>) -> Result<Vec<u8>, String>;
    fn bincode_de(b: &[u8]) -> Result<RangeProof<Self>, String>;
    fn gi_vec(p: &RangeParameters<Self>) -> Vec<Self>;
    fn hi_vec(p: &RangeParameters<Self>) -> Vec<Self>;
    /// One public generator iterator (`h`: the H one) driven through a sequence of calls: (false, _) = next(), (true, k) = nth(k)
    fn gens_iter_walk(p: &RangeParameters<Self>, h: bool, steps: &[(bool, usize)]) -> Vec<Option<Self>>;
    /// `iter.skip(a).step_by(s).collect()` on a public generator iterator
    fn gens_iter_skip_step(p: &RangeParameters<Self>, h: bool, a: usize, s: usize) -> Vec<Self>;
    /// (`iter.count()`, `iter.last()`) after `a` calls of next()
    fn gens_iter_count_last(p: &RangeParameters<Self>, h: bool, a: usize) -> (usize, Option<Self>);
    /// Probe the precomputed table: the result of a static-only multiscalar multiplication
    fn precomp_static(p: &RangeParameters<Self>, scalars: &[Scalar]) -> Self;
    fn h_compressed(p: &RangeParameters<Self>) -> [u8; 32];
    fn g_compressed(p: &RangeParameters<Self>) -> Vec<[u8; 32]>;
    fn statement_commitments_compressed(s: &RangeStatement<Self>) -> Vec<[u8; 32]>;

    // --- primitive group operations (used by the reference model; none of them is library code) ---------------
    fn g_identity() -> Self;
    fn g_add(&self, o: &Self) -> Self;
    fn g_mul(&self, s: &Scalar) -> Self;
    fn g_msm(scalars: &[Scalar], points: &[Self]) -> Self;
    fn g_compress(&self) -> [u8; 32];
    fn g_decompress(b: &[u8; 32]) -> Option<Self>;
    fn g_from_uniform(b: &[u8; 64]) -> Self;
}

macro_rules! impl_lib_api {
    () => {
        fn params(n: usize, c: usize, pc: PedersenGens<Self>) -> Result<RangeParameters<Self>, ProofError> {
            RangeParameters::init(n, c, pc)
        }

        fn statement(
            p: RangeParameters<Self>,
            cs: Vec<Self>,
            promises: Vec<Option<u64>>,
            seed: Option<Scalar>,
        ) -> Result<RangeStatement<Self>, ProofError> {
            RangeStatement::init(p, cs, promises, seed)
        }

        fn commit(pc: &PedersenGens<Self>, v: &Scalar, r: &[Scalar]) -> Result<Self, ProofError> {
            pc.commit(v, r)
        }

        fn prove(
            t: &mut Transcript,
            st: &RangeStatement<Self>,
            w: &RangeWitness,
            rng: &mut HRng,
        ) -> Result<RangeProof<Self>, ProofError> {
            RangeProof::prove_with_rng(t, st, w, rng)
        }

        fn prove_os(t: &mut Transcript, st: &RangeStatement<Self>, w: &RangeWitness) -> Result<RangeProof<Self>, ProofError> {
            RangeProof::prove(t, st, w)
        }

        fn verify(
            ts: &mut [Transcript],
            sts: &[RangeStatement<Self>],
            ps: &[RangeProof<Self>],
            a: VerifyAction,
        ) -> Result<Vec<Option<ExtendedMask>>, ProofError> {
            RangeProof::verify_batch(ts, sts, ps, a)
        }

        fn to_bytes(p: &RangeProof<Self>) -> Vec<u8> {
            p.to_bytes()
        }

        fn from_bytes(b: &[u8]) -> Result<RangeProof<Self>, ProofError> {
            RangeProof::<Self>::from_bytes(b)
        }

        fn proof_eq(a: &RangeProof<Self>, b: &RangeProof<Self>) -> bool {
            a == b
        }

        fn proof_clone(a: &RangeProof<Self>) -> RangeProof<Self> {
            a.clone()
        }

        fn proof_ext(a: &RangeProof<Self>) -> usize {
            a.extension_degree() as usize
        }

        fn ext_from_bytes(b: &[u8]) -> Result<ExtensionDegree, ProofError> {
            RangeProof::<Self>::extension_degree_from_proof_bytes(b)
        }

        fn bincode_ser(a: &RangeProof<Self>) -> Result<Vec<u8>, String> {
            bincode::serialize(a).map_err(|e| e.to_string())
        }

        fn bincode_de(b: &[u8]) -> Result<RangeProof<Self>, String> {
            bincode::deserialize::<RangeProof<Self>>(b).map_err(|e| e.to_string())
        }

        fn gi_vec(p: &RangeParameters<Self>) -> Vec<Self> {
            p.gi_base_iter().cloned().collect()
        }

        fn hi_vec(p: &RangeParameters<Self>) -> Vec<Self> {
            p.hi_base_iter().cloned().collect()
        }

        fn gens_iter_walk(p: &RangeParameters<Self>, h: bool, steps: &[(bool, usize)]) -> Vec<Option<Self>> {
            fn walk<'a, T: Clone + 'a>(mut it: impl Iterator<Item = &'a T>, steps: &[(bool, usize)]) -> Vec<Option<T>> {
                steps.iter().map(|(is_nth, k)| if *is_nth { it.nth(*k).cloned() } else { it.next().cloned() }).collect()
            }
            if h {
                walk(p.hi_base_iter(), steps)
            } else {
                walk(p.gi_base_iter(), steps)
            }
        }

        fn gens_iter_skip_step(p: &RangeParameters<Self>, h: bool, a: usize, s: usize) -> Vec<Self> {
            if h {
                p.hi_base_iter().skip(a).step_by(s).cloned().collect()
            } else {
                p.gi_base_iter().skip(a).step_by(s).cloned().collect()
            }
        }

        fn gens_iter_count_last(p: &RangeParameters<Self>, h: bool, a: usize) -> (usize, Option<Self>) {
            fn adv<'a, T: Clone + 'a>(mut it: impl Iterator<Item = &'a T>, a: usize) -> impl Iterator<Item = &'a T> {
                for _ in 0..a {
                    it.next();
                }
                it
            }
            if h {
                (adv(p.hi_base_iter(), a).count(), adv(p.hi_base_iter(), a).last().cloned())
            } else {
                (adv(p.gi_base_iter(), a).count(), adv(p.gi_base_iter(), a).last().cloned())
            }
        }

        fn precomp_static(p: &RangeParameters<Self>, scalars: &[Scalar]) -> Self {
            p.precomp().vartime_multiscalar_mul(scalars.iter())
        }

        fn h_compressed(p: &RangeParameters<Self>) -> [u8; 32] {
            *p.h_base_compressed().as_fixed_bytes()
        }

        fn g_compressed(p: &RangeParameters<Self>) -> Vec<[u8; 32]> {
            p.g_bases_compressed().iter().map(|c| *c.as_fixed_bytes()).collect()
        }

        fn statement_commitments_compressed(s: &RangeStatement<Self>) -> Vec<[u8; 32]> {
            s.commitments_compressed.iter().map(|c| *c.as_fixed_bytes()).collect()
        }
    };
}

impl G for RistrettoPoint {
    const IS_F: bool = false;
    const NAME: &'static str = "ristretto";

    impl_lib_api!();

    fn pc_gens(d: usize) -> PedersenGens<Self> {
        tari_bulletproofs_plus::ristretto::create_pedersen_gens_with_extension_degree(ext(d))
    }

    fn g_identity() -> Self {
        RistrettoPoint::identity()
    }

    fn g_add(&self, o: &Self) -> Self {
        self + o
    }

    fn g_mul(&self, s: &Scalar) -> Self {
        self * s
    }

    fn g_msm(scalars: &[Scalar], points: &[Self]) -> Self {
        assert_eq!(scalars.len(), points.len());
        RistrettoPoint::vartime_multiscalar_mul(scalars.iter(), points.iter())
    }

    fn g_compress(&self) -> [u8; 32] {
        self.compress().to_bytes()
    }

    fn g_decompress(b: &[u8; 32]) -> Option<Self> {
        CompressedRistretto(*b).decompress()
    }

    fn g_from_uniform(b: &[u8; 64]) -> Self {
        RistrettoPoint::from_uniform_bytes(b)
    }
}

impl G for F {
    const IS_F: bool = true;
    const NAME: &'static str = "freemodule";

    impl_lib_api!();

    fn pc_gens(d: usize) -> PedersenGens<Self> {
        let h = fg::basis("H");
        let g: Vec<F> = (0..d).map(|k| fg::basis(&format!("G{}", k))).collect();
        f_pc_gens_from(h, g)
    }

    fn g_identity() -> Self {
        F::zero()
    }

    fn g_add(&self, o: &Self) -> Self {
        let mut r = self.clone();
        r.add_scaled(o, &Scalar::ONE);
        r
    }

    fn g_mul(&self, s: &Scalar) -> Self {
        self.scaled(s)
    }

    fn g_msm(scalars: &[Scalar], points: &[Self]) -> Self {
        assert_eq!(scalars.len(), points.len());
        let mut acc = F::zero();
        for (s, p) in scalars.iter().zip(points.iter()) {
            acc.add_scaled(p, s);
        }
        acc
    }

    fn g_compress(&self) -> [u8; 32] {
        *Compressable::compress(self).as_fixed_bytes()
    }

    fn g_decompress(b: &[u8; 32]) -> Option<Self> {
        CF(*b).decompress()
    }

    fn g_from_uniform(b: &[u8; 64]) -> Self {
        <F as FromUniformBytes>::from_uniform_bytes(b)
    }
}

/// Assemble `PedersenGens<F>` from arbitrary value / blinding generators (public fields of the library type)
pub fn f_pc_gens_from(h: F, g: Vec<F>) -> PedersenGens<F> {
    let d = g.len();
    PedersenGens {
        h_base_compressed: h.compress(),
        h_base: h,
        g_base_compressed_vec: g.iter().map(|p| p.compress()).collect(),
        g_base_vec: g,
        extension_degree: ext(d),
    }
}

/// Assemble `PedersenGens<P>` from the generators of another one with a replaced value generator / blinding generator
pub fn pc_gens_from<P: G>(h: P, g: Vec<P>) -> PedersenGens<P> {
    let d = g.len();
    PedersenGens {
        h_base_compressed: h.compress(),
        h_base: h,
        g_base_compressed_vec: g.iter().map(|p| p.compress()).collect(),
        g_base_vec: g,
        extension_degree: ext(d),
    }
}

pub fn value_base<P: G>() -> P {
    P::pc_gens(1).h_base
}

#[allow(dead_code)]
pub fn ristretto_basepoint() -> RistrettoPoint {
    RISTRETTO_BASEPOINT_POINT
}
