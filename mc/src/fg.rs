//! The free-module "group" F = Scalar^(basis): formal linear combinations of named basis elements.
//!
//! The unmodified library is instantiated over F. Every point is a readable coefficient vector, so the element the
//! verifier compares with the identity, the prover's nonces and the batch weights are directly observable.
//!
//! Length checks mirror curve25519-dalek's backends exactly (size-hint assertions in the plain multiscalar
//! multiplications, exact-length assertions in the precomputed one), so a padding mistake panics here as on Ristretto.

use std::{
    borrow::Borrow,
    cell::{Cell, RefCell},
    collections::{BTreeMap, HashMap},
    fmt,
    ops::{Add, AddAssign, Mul, Neg, Sub},
    sync::{Arc, Mutex, OnceLock},
};

use curve25519_dalek::{
    scalar::Scalar,
    traits::{Identity, MultiscalarMul, VartimeMultiscalarMul, VartimePrecomputedMultiscalarMul},
};
use sha3::{Digest, Sha3_256};
use subtle::{Choice, ConstantTimeEq};
use tari_bulletproofs_plus::{
    protocols::curve_point_protocol::CurvePointProtocol,
    traits::{Compressable, Decompressable, FixedBytesRepr, FromUniformBytes, Precomputable},
};

pub type BasisId = u128;

/// An element of the free module: finite-support map basis -> nonzero coefficient
#[derive(Clone, Default)]
pub struct F(pub BTreeMap<BasisId, Scalar>);

/// The 32-byte "compressed" form: a digest of the canonical coefficient list (identity = all zeros)
#[derive(Copy, Clone, PartialEq, Eq, Hash)]
pub struct CF(pub [u8; 32]);

impl fmt::Debug for CF {
    fn fmt(&self, f: &mut fmt::Formatter<'_>) -> fmt::Result {
        write!(f, "CF({})", hex(&self.0[..8]))
    }
}

pub fn hex(b: &[u8]) -> String {
    b.iter().map(|x| format!("{:02x}", x)).collect()
}

// ---------------------------------------------------------------------------------------------------------------
// basis names

fn names() -> &'static Mutex<HashMap<BasisId, String>> {
    static NAMES: OnceLock<Mutex<HashMap<BasisId, String>>> = OnceLock::new();
    NAMES.get_or_init(|| Mutex::new(HashMap::new()))
}

pub fn basis_id_raw(bytes: &[u8]) -> BasisId {
    let h = Sha3_256::digest(bytes);
    let mut b = [0u8; 16];
    b.copy_from_slice(&h[..16]);
    u128::from_le_bytes(b)
}

/// Basis element with a human-readable name (identity of the element = digest of the name, independent of creation
/// order and thread schedule)
pub fn basis(name: &str) -> F {
    let mut v = Vec::with_capacity(name.len() + 2);
    v.extend_from_slice(b"N:");
    v.extend_from_slice(name.as_bytes());
    let id = basis_id_raw(&v);
    crate::allocmon::without_sched_points(|| {
        names().lock().unwrap().entry(id).or_insert_with(|| name.to_string());
    });
    F::unit(id)
}

pub fn basis_id(name: &str) -> BasisId {
    *basis(name).0.keys().next().unwrap()
}

/// Basis id of the element `from_uniform_bytes` yields for these 64 bytes under the given salt
pub fn uniform_id(bytes: &[u8; 64], salt: u64) -> BasisId {
    let mut v = Vec::with_capacity(2 + 8 + 64);
    v.extend_from_slice(b"U:");
    v.extend_from_slice(&salt.to_le_bytes());
    v.extend_from_slice(bytes);
    basis_id_raw(&v)
}

pub fn name_of(id: BasisId) -> String {
    names()
        .lock()
        .unwrap()
        .get(&id)
        .cloned()
        .unwrap_or_else(|| format!("#{:032x}", id))
}

pub fn set_name(id: BasisId, name: String) {
    names().lock().unwrap().entry(id).or_insert(name);
}

// ---------------------------------------------------------------------------------------------------------------
// thread-local observation state

thread_local! {
    static INTERN: RefCell<Arc<Mutex<HashMap<[u8; 32], F>>>> = RefCell::new(Arc::new(Mutex::new(HashMap::new())));
    static RESIDUALS: RefCell<Option<Vec<F>>> = const { RefCell::new(None) };
    static OPS: Cell<u64> = const { Cell::new(0) };
    static UNIFORM_SALT: Cell<u64> = const { Cell::new(0) };
}

static SCHED_HOOK: OnceLock<fn(&'static str)> = OnceLock::new();

pub fn set_sched_hook(f: fn(&'static str)) -> bool {
    SCHED_HOOK.set(f).is_ok()
}

static FINE_POINTS: std::sync::atomic::AtomicBool = std::sync::atomic::AtomicBool::new(false);

/// Fine granularity: every group operation is a scheduling point. Coarse (default): only the operations that touch
/// state shared between threads (the precomputed table: construction and use); multiscalar multiplications,
/// compression and decompression of thread-local data commute with every other thread's steps.
pub fn set_fine_points(on: bool) {
    FINE_POINTS.store(on, std::sync::atomic::Ordering::SeqCst);
}

#[inline]
fn sched(label: &'static str) {
    if let Some(f) = SCHED_HOOK.get() {
        if label.starts_with("F.precomp") || FINE_POINTS.load(std::sync::atomic::Ordering::Relaxed) {
            f(label);
        }
    }
}

/// Handle to this thread's intern table (share it with threads that must decompress this thread's points)
pub fn intern_handle() -> Arc<Mutex<HashMap<[u8; 32], F>>> {
    INTERN.with(|t| t.borrow().clone())
}

pub fn set_intern(h: Arc<Mutex<HashMap<[u8; 32], F>>>) {
    INTERN.with(|t| *t.borrow_mut() = h);
}

/// Forget every interned point on this thread's table (call between independent cases)
pub fn clear_intern() {
    // replace this thread's table by a fresh one (a table shared with other threads is left untouched)
    INTERN.with(|t| *t.borrow_mut() = Arc::new(Mutex::new(HashMap::new())));
}

/// Start logging identity comparisons on this thread
pub fn residuals_start() {
    RESIDUALS.with(|r| *r.borrow_mut() = Some(Vec::new()));
}

/// Stop logging and return every element that was compared with the identity since `residuals_start`
pub fn residuals_take() -> Vec<F> {
    RESIDUALS.with(|r| r.borrow_mut().take()).unwrap_or_default()
}

pub fn ops() -> u64 {
    OPS.with(|c| c.get())
}

pub fn ops_reset() {
    OPS.with(|c| c.set(0));
}

#[inline]
fn count(n: usize) {
    OPS.with(|c| c.set(c.get() + n as u64));
}

/// Run `f` with `from_uniform_bytes` mapping to a *different* family of basis elements
pub fn with_uniform_salt<T>(salt: u64, f: impl FnOnce() -> T) -> T {
    let old = UNIFORM_SALT.with(|s| s.replace(salt));
    let r = f();
    UNIFORM_SALT.with(|s| s.set(old));
    r
}

// ---------------------------------------------------------------------------------------------------------------
// module arithmetic

impl F {
    pub fn zero() -> F {
        F(BTreeMap::new())
    }

    pub fn unit(id: BasisId) -> F {
        let mut m = BTreeMap::new();
        m.insert(id, Scalar::ONE);
        F(m)
    }

    pub fn is_zero(&self) -> bool {
        self.0.is_empty()
    }

    pub fn coeff(&self, id: BasisId) -> Scalar {
        self.0.get(&id).copied().unwrap_or(Scalar::ZERO)
    }

    pub fn coeff_named(&self, name: &str) -> Scalar {
        self.coeff(basis_id(name))
    }

    pub fn add_scaled(&mut self, other: &F, s: &Scalar) {
        if *s == Scalar::ZERO {
            return;
        }
        for (k, v) in &other.0 {
            let e = self.0.entry(*k).or_insert(Scalar::ZERO);
            *e += v * s;
            if *e == Scalar::ZERO {
                self.0.remove(k);
            }
        }
    }

    pub fn scaled(&self, s: &Scalar) -> F {
        let mut r = F::zero();
        r.add_scaled(self, s);
        r
    }

    /// Remove and return the coefficient on one basis element
    pub fn take_coeff(&mut self, id: BasisId) -> Scalar {
        self.0.remove(&id).unwrap_or(Scalar::ZERO)
    }

    pub fn support(&self) -> usize {
        self.0.len()
    }

    /// Human-readable difference (for replay files)
    pub fn describe(&self, max: usize) -> Vec<String> {
        self.0
            .iter()
            .take(max)
            .map(|(k, v)| format!("{}:{}", name_of(*k), hex(&v.to_bytes()[..6])))
            .collect()
    }

    fn canonical_digest(&self) -> [u8; 32] {
        if self.0.is_empty() {
            return [0u8; 32];
        }
        let mut h = Sha3_256::new();
        h.update(b"F-compress");
        for (k, v) in &self.0 {
            h.update(k.to_le_bytes());
            h.update(v.as_bytes());
        }
        let mut out = [0u8; 32];
        out.copy_from_slice(&h.finalize());
        out[31] |= 0x80; // never all-zero, never collides with the identity encoding
        out
    }
}

impl fmt::Debug for F {
    fn fmt(&self, f: &mut fmt::Formatter<'_>) -> fmt::Result {
        write!(f, "F{{{} terms: {:?}}}", self.0.len(), self.describe(4))
    }
}

impl PartialEq for F {
    fn eq(&self, other: &F) -> bool {
        let se = self.0.is_empty();
        let oe = other.0.is_empty();
        if se || oe {
            RESIDUALS.with(|r| {
                if let Some(v) = r.borrow_mut().as_mut() {
                    v.push(if se { other.clone() } else { self.clone() });
                }
            });
        }
        if self.0.len() != other.0.len() {
            return false;
        }
        self.0.iter().zip(other.0.iter()).all(|((k1, v1), (k2, v2))| k1 == k2 && v1 == v2)
    }
}

impl Identity for F {
    fn identity() -> F {
        F::zero()
    }
}

impl Add<F> for F {
    type Output = F;

    fn add(mut self, rhs: F) -> F {
        self.add_scaled(&rhs, &Scalar::ONE);
        self
    }
}

impl<'a, 'b> Add<&'b F> for &'a F {
    type Output = F;

    fn add(self, rhs: &'b F) -> F {
        let mut r = self.clone();
        r.add_scaled(rhs, &Scalar::ONE);
        r
    }
}

impl AddAssign<F> for F {
    fn add_assign(&mut self, rhs: F) {
        self.add_scaled(&rhs, &Scalar::ONE);
    }
}

impl Sub<F> for F {
    type Output = F;

    fn sub(mut self, rhs: F) -> F {
        self.add_scaled(&rhs, &(-Scalar::ONE));
        self
    }
}

impl Neg for F {
    type Output = F;

    fn neg(self) -> F {
        self.scaled(&(-Scalar::ONE))
    }
}

impl<'a> Mul<Scalar> for &'a F {
    type Output = F;

    fn mul(self, rhs: Scalar) -> F {
        count(1);
        self.scaled(&rhs)
    }
}

impl Mul<Scalar> for F {
    type Output = F;

    fn mul(self, rhs: Scalar) -> F {
        count(1);
        self.scaled(&rhs)
    }
}

fn msm_exact<I, J>(scalars: I, points: J) -> F
where
    I: Iterator,
    I::Item: Borrow<Scalar>,
    J: Iterator,
    J::Item: Borrow<F>,
{
    let mut acc = F::zero();
    let mut n = 0usize;
    for (s, p) in scalars.zip(points) {
        acc.add_scaled(p.borrow(), s.borrow());
        n += 1;
    }
    count(n);
    acc
}

impl MultiscalarMul for F {
    type Point = F;

    fn multiscalar_mul<I, J>(scalars: I, points: J) -> F
    where
        I: IntoIterator,
        I::Item: Borrow<Scalar>,
        J: IntoIterator,
        J::Item: Borrow<F>,
    {
        // Same sanity checks as curve25519-dalek's EdwardsPoint::multiscalar_mul
        let mut scalars = scalars.into_iter();
        let mut points = points.into_iter();
        let (s_lo, s_hi) = scalars.by_ref().size_hint();
        let (p_lo, p_hi) = points.by_ref().size_hint();
        assert_eq!(s_lo, p_lo);
        assert_eq!(s_hi, Some(s_lo));
        assert_eq!(p_hi, Some(p_lo));
        sched("F.msm");
        msm_exact(scalars, points)
    }
}

impl VartimeMultiscalarMul for F {
    type Point = F;

    fn optional_multiscalar_mul<I, J>(scalars: I, points: J) -> Option<F>
    where
        I: IntoIterator,
        I::Item: Borrow<Scalar>,
        J: IntoIterator<Item = Option<F>>,
    {
        // Same sanity checks as curve25519-dalek's EdwardsPoint::optional_multiscalar_mul
        let mut scalars = scalars.into_iter();
        let mut points = points.into_iter();
        let (s_lo, s_hi) = scalars.by_ref().size_hint();
        let (p_lo, p_hi) = points.by_ref().size_hint();
        assert_eq!(s_lo, p_lo);
        assert_eq!(s_hi, Some(s_lo));
        assert_eq!(p_hi, Some(p_lo));
        sched("F.vmsm");
        let pts: Vec<F> = points.collect::<Option<Vec<F>>>()?;
        Some(msm_exact(scalars, pts.iter()))
    }
}

/// "Precomputed table": just the static points, with the exact-length assertions of dalek's precomputed Straus
pub struct FPrecomp {
    pub table: Vec<F>,
}

impl VartimePrecomputedMultiscalarMul for FPrecomp {
    type Point = F;

    fn new<I>(static_points: I) -> Self
    where
        I: IntoIterator,
        I::Item: Borrow<F>,
    {
        sched("F.precomp.new");
        FPrecomp {
            table: static_points.into_iter().map(|p| p.borrow().clone()).collect(),
        }
    }

    fn optional_mixed_multiscalar_mul<I, J, K>(
        &self,
        static_scalars: I,
        dynamic_scalars: J,
        dynamic_points: K,
    ) -> Option<F>
    where
        I: IntoIterator,
        I::Item: Borrow<Scalar>,
        J: IntoIterator,
        J::Item: Borrow<Scalar>,
        K: IntoIterator<Item = Option<F>>,
    {
        sched("F.precomp.msm");
        let ss: Vec<Scalar> = static_scalars.into_iter().map(|s| *s.borrow()).collect();
        let ds: Vec<Scalar> = dynamic_scalars.into_iter().map(|s| *s.borrow()).collect();
        let dp: Vec<F> = dynamic_points.into_iter().collect::<Option<Vec<F>>>()?;
        // dalek: assert_eq!(sp, static_nafs.len()); assert_eq!(dp, dynamic_nafs.len());
        assert_eq!(self.table.len(), ss.len());
        assert_eq!(dp.len(), ds.len());
        let mut acc = msm_exact(ss.iter(), self.table.iter());
        let dynamic = msm_exact(ds.iter(), dp.iter());
        acc.add_scaled(&dynamic, &Scalar::ONE);
        Some(acc)
    }
}

impl Precomputable for F {
    type Precomputation = FPrecomp;
}

impl FromUniformBytes for F {
    fn from_uniform_bytes(bytes: &[u8; 64]) -> F {
        let salt = UNIFORM_SALT.with(|s| s.get());
        let id = uniform_id(bytes, salt);
        F::unit(id)
    }
}

impl Compressable for F {
    type Compressed = CF;

    fn compress(&self) -> CF {
        sched("F.compress");
        // the intern table is harness state shared between threads: its (history-dependent) allocations are not
        // scheduling points of the subject
        crate::allocmon::without_sched_points(|| {
            let d = self.canonical_digest();
            if !self.0.is_empty() {
                INTERN.with(|t| {
                    t.borrow().lock().unwrap().entry(d).or_insert_with(|| self.clone());
                });
            }
            CF(d)
        })
    }
}

impl Decompressable for CF {
    type Decompressed = F;

    fn decompress(&self) -> Option<F> {
        sched("F.decompress");
        if self.0 == [0u8; 32] {
            return Some(F::zero());
        }
        crate::allocmon::without_sched_points(|| INTERN.with(|t| t.borrow().lock().unwrap().get(&self.0).cloned()))
    }
}

impl FixedBytesRepr for CF {
    fn as_fixed_bytes(&self) -> &[u8; 32] {
        &self.0
    }

    fn from_fixed_bytes(bytes: [u8; 32]) -> Self {
        CF(bytes)
    }
}

impl Identity for CF {
    fn identity() -> CF {
        CF([0u8; 32])
    }
}

impl ConstantTimeEq for CF {
    fn ct_eq(&self, other: &CF) -> Choice {
        self.0.ct_eq(&other.0)
    }
}

impl CurvePointProtocol for F {}
