//! C15 Proof encoding is a canonical bijection with an exact acceptance set (DESIGN.md 3, C15)

use curve25519_dalek::ristretto::RistrettoPoint;
use serde_json::json;

use crate::{
    api::{HRng, G},
    common::*,
    engine::{case, Case, CaseResult, Report},
    fg::{self, F},
    refbp,
};

const ELL: [u8; 32] = [
    0xed, 0xd3, 0xf5, 0x5c, 0x1a, 0x63, 0x12, 0x58, 0xd6, 0x9c, 0xf7, 0xa2, 0xde, 0xf9, 0xde, 0x14, 0, 0, 0, 0, 0, 0, 0,
    0, 0, 0, 0, 0, 0, 0, 0, 0x10,
];

fn add_small(mut b: [u8; 32], mut x: i32) -> [u8; 32] {
    let mut i = 0;
    while x != 0 && i < 32 {
        let v = b[i] as i32 + x;
        b[i] = v.rem_euclid(256) as u8;
        x = v.div_euclid(256);
        i += 1;
    }
    b
}

fn scalar_alphabet() -> Vec<(&'static str, [u8; 32], bool)> {
    let mut top255 = [0xffu8; 32];
    top255[31] = 0x7f;
    let mut one = [0u8; 32];
    one[0] = 1;
    vec![
        ("0", [0u8; 32], true),
        ("1", one, true),
        ("l-1", add_small(ELL, -1), true),
        ("l", ELL, false),
        ("l+1", add_small(ELL, 1), false),
        ("2^255-1", top255, false),
        ("2^256-1", [0xffu8; 32], false),
    ]
}

fn point_alphabet<P: G>() -> Vec<(&'static str, [u8; 32])> {
    let mut nondec = [0u8; 32];
    nondec[0] = 1; // odd low bit: never a canonical Ristretto encoding; unknown digest over F
    vec![
        ("zeros", [0u8; 32]),
        ("ff", [0xffu8; 32]),
        ("non-decodable", nondec),
        ("valid-point", P::pc_gens(1).h_base.g_compress()),
    ]
}

/// One byte string through every decoding path, against the independent predicate
pub fn check_bytes<P: G>(b: &[u8], sub: &str, res: &mut CaseResult) {
    let expect = refbp::ref_decode(b);
    res.executions += 1;
    res.validated += 1;
    let got = catch(|| P::from_bytes(b));
    match got {
        Err(p) => {
            res.violate(format!("{}/panic", sub), format!("from_bytes panicked: {}", p));
            return;
        },
        Ok(r) => {
            *res.outcome_counter(if r.is_ok() { "decode-accepted" } else { "decode-refused" }) += 1;
            if r.is_ok() != expect.is_some() {
                res.violate(
                    format!("{}/acceptance", sub),
                    format!(
                        "from_bytes {} a {}-byte string (first byte {:?}) that the acceptance predicate {}",
                        if r.is_ok() { "accepts" } else { "refuses" },
                        b.len(),
                        b.first(),
                        if expect.is_some() { "accepts" } else { "refuses" }
                    ),
                );
            }
            if let Ok(p) = &r {
                let back = P::to_bytes(p);
                if back != b {
                    res.violate(format!("{}/reencode", sub), "re-encoding a decoded proof does not return the identical bytes");
                }
                if let Some(e) = &expect {
                    if refbp::ref_encode(e) != back && back == b {
                        res.machinery_error("reference encoder disagrees with itself");
                    }
                    if P::proof_ext(p) != e.ext as usize {
                        res.violate(format!("{}/degree", sub), "decoded extension degree differs from the tag byte");
                    }
                }
            }
            // extension_degree_from_proof_bytes looks at the first byte only
            match (catch(|| P::ext_from_bytes(b)), b.first()) {
                (Ok(r2), first) => {
                    let expect_ok = matches!(first, Some(1..=6));
                    if r2.is_ok() != expect_ok {
                        res.violate(format!("{}/degree-helper", sub), "extension_degree_from_proof_bytes disagrees with the tag byte rule");
                    }
                },
                (Err(p), _) => res.violate(format!("{}/degree-helper", sub), format!("panicked: {}", p)),
            }
            // serde (bincode) accepts and produces exactly the same byte strings
            let mut framed = (b.len() as u64).to_le_bytes().to_vec();
            framed.extend_from_slice(b);
            match catch(|| P::bincode_de(&framed)) {
                Err(p) => res.violate(format!("{}/serde", sub), format!("serde decoding panicked: {}", p)),
                Ok(s) => {
                    if s.is_ok() != r.is_ok() {
                        res.violate(
                            format!("{}/serde", sub),
                            format!("serde form {} a byte string that from_bytes {}", if s.is_ok() { "accepts" } else { "refuses" }, if r.is_ok() { "accepts" } else { "refuses" }),
                        );
                    }
                    if let Ok(sp) = s {
                        match P::bincode_ser(&sp) {
                            Ok(out) if out == framed => {},
                            _ => res.violate(format!("{}/serde-out", sub), "serde form does not reproduce the bytes it accepted"),
                        }
                    }
                },
            }
        },
    }
}

fn shape_bytes(d: usize, k: usize, filler: u8) -> Vec<u8> {
    let mut b = vec![d as u8];
    b.extend(std::iter::repeat(filler).take(32 * (5 + d + 2 * k)));
    b
}

fn lengths_case<P: G>(first_bytes: Vec<u8>, chunk: usize) -> Box<dyn Case> {
    case(format!("{}/lengths/first-bytes-{}", P::NAME, chunk), move |_v| {
        let mut res = CaseResult::new("explored");
        let max_len = 1 + 32 * (5 + 6 + 2 * 12) + 40;
        for &fb in &first_bytes {
            for len in 0..=max_len {
                let mut b = vec![1u8; len];
                if len > 0 {
                    b[0] = fb;
                }
                res.transitions += 1;
                check_bytes::<P>(&b, &format!("len={},first={}", len, fb), &mut res);
            }
        }
        res
    })
}

fn positions_case<P: G>(d: usize, k: usize) -> Box<dyn Case> {
    case(format!("{}/shape/d={},k={}", P::NAME, d, k), move |_v| {
        let mut res = CaseResult::new("explored");
        let base = shape_bytes(d, k, 1);
        let elements = 5 + d + 2 * k;
        let is_scalar = |e: usize| e < d || e == d + 3 || e == d + 4;
        for e in 0..elements {
            let off = 1 + 32 * e;
            if is_scalar(e) {
                for (name, v, _canon) in scalar_alphabet() {
                    let mut b = base.clone();
                    b[off..off + 32].copy_from_slice(&v);
                    res.transitions += 1;
                    check_bytes::<P>(&b, &format!("element{}={}", e, name), &mut res);
                }
            } else {
                for (name, v) in point_alphabet::<P>() {
                    let mut b = base.clone();
                    b[off..off + 32].copy_from_slice(&v);
                    res.transitions += 1;
                    check_bytes::<P>(&b, &format!("element{}={}", e, name), &mut res);
                }
            }
        }
        // trailing / missing bytes
        for delta in 1..=31usize {
            let mut b = base.clone();
            b.extend(std::iter::repeat(1u8).take(delta));
            check_bytes::<P>(&b, &format!("+{}bytes", delta), &mut res);
            let b2 = &base[..base.len() - delta];
            check_bytes::<P>(b2, &format!("-{}bytes", delta), &mut res);
            res.transitions += 2;
        }
        // one element more / less (odd number of L/R elements)
        let mut b = base.clone();
        b.extend(std::iter::repeat(1u8).take(32));
        check_bytes::<P>(&b, "+1element", &mut res);
        check_bytes::<P>(&base[..base.len() - 32], "-1element", &mut res);
        if k == 1 {
            // zero rounds
            check_bytes::<P>(&shape_bytes(d, 0, 1), "k=0", &mut res);
        }
        res
    })
}

fn prover_case<P: G>(cfg: Cfg) -> Box<dyn Case> {
    case(format!("prover-roundtrip/{}/{}", P::NAME, cfg.key()), move |_v| {
        fg::clear_intern();
        let mut res = CaseResult::new("round-trips");
        let mut wit = Wit::default_for(&cfg);
        if cfg.m == 1 {
            wit.seed = Some(seed_scalar(6));
        }
        let built = build_cached::<P>(&cfg, &wit).honest();
        let proof = lib_prove_honest(&built, &CTX_A, &mut HRng::chacha(9));
        let bytes = P::to_bytes(&proof);
        res.executions += 1;
        res.validated += 1;
        let expect_len = 1 + 32 * (5 + cfg.d + 2 * cfg.rounds());
        if bytes.len() != expect_len {
            res.violate("length", format!("encoded length {} != 1 + 32*(5 + d + 2*log2(bits*aggregation)) = {}", bytes.len(), expect_len));
        }
        match catch(|| P::from_bytes(&bytes)) {
            Ok(Ok(p2)) => {
                if !P::proof_eq(&proof, &p2) {
                    res.violate("roundtrip", "decoding the prover's encoded output gives a different proof");
                }
            },
            Ok(Err(e)) => {
                res.outcome = "not-decodable".into();
                res.violate(
                    if cfg.rounds() == 0 { "zero-round-output-refused" } else { "output-refused" },
                    format!("the prover's own output ({} bytes, {} folding rounds) is refused by the decoder: {}", bytes.len(), cfg.rounds(), crate::api::err_name(&e)),
                );
            },
            Err(p) => res.violate("roundtrip", format!("decoder panicked: {}", p)),
        }
        // serde round trip of the object
        match P::bincode_ser(&proof) {
            Ok(framed) => {
                let mut expect = (bytes.len() as u64).to_le_bytes().to_vec();
                expect.extend_from_slice(&bytes);
                if framed != expect {
                    res.violate("serde-out", "serde form is not the byte codec's output");
                }
                if cfg.big_n() > 1 {
                    match P::bincode_de(&framed) {
                        Ok(p2) if P::proof_eq(&proof, &p2) => {},
                        Ok(_) => res.violate("serde-roundtrip", "serde round trip gives a different proof"),
                        Err(e) => res.violate("serde-roundtrip", format!("serde refuses the prover's output: {}", e)),
                    }
                }
            },
            Err(e) => res.violate("serde-out", format!("serde serialisation failed: {}", e)),
        }
        res.sample = Some(json!({"cfg": cfg.key(), "len": bytes.len()}));
        res
    })
}

fn long_rounds_case<P: G>(d: usize) -> Box<dyn Case> {
    case(format!("{}/long-round-counts/d={}", P::NAME, d), move |_v| {
        let mut res = CaseResult::new("explored");
        for k in [13usize, 31, 32, 33, 63, 64, 65, 69, 70, 71, 72, 100, 127, 128, 129, 255, 256, 257, 1000] {
            let base = shape_bytes(d, k, 1);
            res.transitions += 1;
            check_bytes::<P>(&base, &format!("k={}", k), &mut res);
            let mut b = base.clone();
            b.extend(std::iter::repeat(1u8).take(32));
            check_bytes::<P>(&b, &format!("k={}+1element", k), &mut res);
            let mut b = base.clone();
            b.extend(std::iter::repeat(1u8).take(7));
            check_bytes::<P>(&b, &format!("k={}+7bytes", k), &mut res);
            check_bytes::<P>(&base[..base.len() - 32], &format!("k={}-1element", k), &mut res);
        }
        res
    })
}

/// A witness whose openings carry fewer blinding factors than the statement's extension degree (commitments made with
/// that many factors). The prover may refuse it (C06 says it must); whatever it returns must encode and decode.
fn short_witness_case<P: G>(cfg: Cfg) -> Box<dyn Case> {
    case(format!("prover-roundtrip-short-witness/{}/{}", P::NAME, cfg.key()), move |_v| {
        fg::clear_intern();
        let mut res = CaseResult::new("prover-refused");
        let mut wit = Wit::default_for(&cfg);
        for r in wit.blindings.iter_mut() {
            r.truncate(cfg.d - 1);
        }
        let built = match build_cached::<P>(&cfg, &wit) {
            Ok(b) => b,
            Err(_) => return res,
        };
        res.executions += 1;
        if let Ok(Ok(proof)) = catch(|| lib_prove(&built, &CTX_A, &mut HRng::chacha(9))) {
            res.outcome = "round-trips".into();
            let bytes = P::to_bytes(&proof);
            res.validated += 1;
            match catch(|| P::from_bytes(&bytes)) {
                Ok(Ok(p2)) if P::proof_eq(&proof, &p2) => {},
                Ok(Ok(_)) => res.violate("roundtrip", "decoding the prover's encoded output gives a different proof"),
                Ok(Err(e)) => res.violate("output-refused", format!("the prover's own output is refused by the decoder: {}", crate::api::err_name(&e))),
                Err(p) => res.violate("roundtrip", format!("decoder panicked: {}", p)),
            }
            let expect_len = 1 + 32 * (5 + cfg.d + 2 * cfg.rounds());
            if bytes.len() != expect_len {
                res.violate("length", format!("encoded length {} != {}", bytes.len(), expect_len));
            }
        }
        res
    })
}

pub fn run(rep: &mut Report) {
    rep.rule = "(1) every length 0..=1161 x every first byte 0..=255 with a neutral filler; (2) every valid shape (degree 1..6 x rounds \
                1..12) x every element position x replacement alphabet (scalars {0,1,l-1,l,l+1,2^255-1,2^256-1}, points {zeros, ff, \
                non-decodable, valid}); (3) zero rounds, +/-1..31 bytes, +/-1 element at every shape, and round counts 13..1000 no prover reaches; (4) every proof the prover outputs \
                on the lattice: round trip and length formula; (5) serde (bincode) on the same corpus; oracle: independent acceptance \
                predicate (mc/src/refbp.rs ref_decode), byte-exact re-encoding"
        .into();
    rep.assume("byte strings: every length x every first byte, every element position x a scalar/point alphabet bracketing l on both sides -- not all 2^(8*len) strings; the decoder's only content-dependent decision is scalar canonicity");
    let mut cases: Vec<Box<dyn Case>> = Vec::new();
    for chunk in 0..16usize {
        let fb: Vec<u8> = (0..256usize).filter(|x| x % 16 == chunk).map(|x| x as u8).collect();
        cases.push(lengths_case::<RistrettoPoint>(fb.clone(), chunk));
        if chunk < 2 {
            cases.push(lengths_case::<F>(fb, chunk));
        }
    }
    for d in 1..=6usize {
        for k in 1..=12usize {
            cases.push(positions_case::<RistrettoPoint>(d, k));
            if k <= 3 {
                cases.push(positions_case::<F>(d, k));
            }
        }
    }
    for cfg in lattice(rep.tier.thorough()) {
        cases.push(prover_case::<RistrettoPoint>(cfg));
        cases.push(prover_case::<F>(cfg));
    }
    // round counts no prover reaches
    for d in [1usize, 3, 6] {
        cases.push(long_rounds_case::<RistrettoPoint>(d));
    }
    // witnesses with fewer blinding factors than the statement's degree: whatever the prover returns must round-trip
    for cfg in lattice_quick().into_iter().filter(|c| c.d >= 2 && c.big_n() >= 2 && c.n <= 8) {
        cases.push(short_witness_case::<RistrettoPoint>(cfg));
        cases.push(short_witness_case::<F>(cfg));
    }
    rep.explore("C15", cases);
    rep.expect_sub_outcome("decode-accepted");
    rep.expect_sub_outcome("decode-refused");
    rep.expect_outcome("round-trips");
}
