//! C13 Every blinding nonce in a proof is fresh and unpredictable (DESIGN.md 3, C13)
//!
//! Over F the prover's nonces are coordinates of its messages; they are read back, validated by letting the reference
//! prover rebuild the identical proof from them, and cross-checked against what the transcript RNG handed out.

use std::collections::BTreeMap;

use curve25519_dalek::scalar::Scalar;
use serde_json::json;

use crate::{
    api::{HRng, G},
    common::*,
    engine::{case, Case, CaseResult, Report},
    fg::{self, F},
    refbp::{self, Nonces},
};

pub struct ProverRun {
    /// false: the reference prover did not reproduce the proof from the read-back, so `nonces.r` / `nonces.s` are a guess from
    /// the RNG trace (the blinding coordinates of A, L, R, A1, B are exact either way)
    pub validated: bool,
    pub nonces: Nonces,
    pub rng_scalars: Vec<Scalar>,
    pub bytes: Vec<u8>,
}

/// Run the library prover over F, read back the nonces and validate the read-back with the reference prover
pub fn observed_prove(cfg: &Cfg, wit: &Wit, ctx: &Ctx, rng: &mut HRng, res: &mut CaseResult, sub: &str) -> Option<ProverRun> {
    observed_prove_src(cfg, wit, ctx, Some(rng), res, sub)
}

/// `rng = None`: the `prove` entry point that takes its randomness from the operating system
pub fn observed_prove_src(cfg: &Cfg, wit: &Wit, ctx: &Ctx, rng: Option<&mut HRng>, res: &mut CaseResult, sub: &str) -> Option<ProverRun> {
    let built = build_cached::<F>(cfg, wit).ok()?;
    merlin::observe::start();
    let r = catch(|| match rng {
        Some(rng) => lib_prove(&built, ctx, rng),
        None => {
            let mut t = ctx.transcript();
            F::prove_os(&mut t, &built.statement, &built.witness)
        },
    });
    let trace = merlin::observe::take();
    res.executions += 1;
    let proof = match r {
        Ok(Ok(p)) => p,
        _ => {
            // a valid witness the prover refuses is C01 / C06's finding
            *res.outcome_counter("prover-failed(skipped)") += 1;
            return None;
        },
    };
    let rst = ref_statement(&built.statement);
    let rp = ref_proof_of(&proof)?;
    let mut t = ctx.transcript();
    let ch = refbp::ref_challenges(&mut t, &rst, &rp);
    let nonces = read_nonces_f(&rst, &rp, &ch)?;
    // validate the read-back: the reference prover fed with these nonces rebuilds the identical proof
    let digits = refbp::honest_digits(cfg.n, &wit.values, &wit.promises)?;
    let mut t2 = ctx.transcript();
    let out = refbp::ref_prove(&mut t2, &rst, &digits, &wit.blindings, &nonces);
    res.validated += 1;
    let rng_scalars = trace_rng_scalars(&trace);
    let mut nonces = nonces;
    let validated = out.proof == rp;
    if out.proof != rp {
        // the library's prover is not the reference protocol (C02 / C19's business). The blinding coordinates of A, L, R,
        // A1, B are still what they are; r and s (which need the reference folding to be solved for) are then taken from
        // the transcript RNG's output, where they are the first two 64-byte draws of the final round.
        res.binding_note(format!("{}/read-back", sub), "nonces read back from the proof do not reproduce it through the reference prover (C02 / C19)");
        let per_round = if wit.seed.is_some() { 0 } else { 2 * cfg.d };
        let before_final = if wit.seed.is_some() { 0 } else { cfg.d + per_round * cfg.rounds() };
        if rng_scalars.len() >= before_final + 2 {
            nonces.r = rng_scalars[before_final];
            nonces.s = rng_scalars[before_final + 1];
        }
    }
    Some(ProverRun {
        validated,
        nonces,
        rng_scalars,
        bytes: F::to_bytes(&proof),
    })
}

fn check_within(run: &ProverRun, sub: &str, res: &mut CaseResult) {
    let all = run.nonces.all();
    let mut seen: BTreeMap<[u8; 32], String> = BTreeMap::new();
    for (name, v) in &all {
        res.validated += 1;
        if *v == Scalar::ZERO {
            res.violate(format!("{}/zero/{}", sub, name), format!("nonce {} is zero", name));
        }
        // a nonce is a uniform scalar: one whose upper half is all zero bytes (or whose lower half is) was drawn from a space
        // of at most 2^128 values
        let b = v.to_bytes();
        if b[16..].iter().all(|x| *x == 0) || b[..16].iter().all(|x| *x == 0) {
            res.violate(format!("{}/short/{}", sub, name), format!("nonce {} has 16 zero bytes: it was not drawn from the whole scalar field", name));
        }
        if let Some(prev) = seen.insert(v.to_bytes(), name.clone()) {
            res.violate(format!("{}/repeat/{}", sub, name), format!("nonce {} equals nonce {} within one proof", name, prev));
        }
    }
}

fn nonce_case(cfg: Cfg, seeded: bool, wit_variant: usize) -> Box<dyn Case> {
    case(format!("{}/seeded={}/witness={}", cfg.key(), seeded, wit_variant), move |_v| {
        fg::clear_intern();
        let mut res = CaseResult::new("explored");
        let mut wit = Wit::default_for(&cfg);
        if wit_variant == 1 {
            for j in 0..cfg.m {
                wit.values[j] = cfg.max_value() - wit.values[j];
                for k in 0..cfg.d {
                    wit.blindings[j][k] = blinding(40 + j, k);
                }
            }
        }
        // witness variant 0: an ordinary seed; variant 1: a corner of the scalar field (mostly 0) -- a seed like any other
        let seed = if wit_variant == 0 { seed_scalar(7) } else { [Scalar::ZERO, Scalar::ONE, Scalar::ZERO, -Scalar::ONE, Scalar::ZERO, Scalar::ZERO][cfg.d - 1] };
        if seeded {
            wit.seed = Some(seed);
        }
        let streams = ["chacha-a", "chacha-b", "chacha-c"];
        let mut runs = Vec::new();
        for s in streams {
            match observed_prove(&cfg, &wit, &CTX_A, &mut HRng::from_model(s), &mut res, s) {
                Some(r) => runs.push(r),
                None => return res,
            }
        }
        // the OS-randomness entry point, called twice with identical inputs: a third and fourth stream
        let mut os_runs = Vec::new();
        for i in 0..2 {
            if let Some(r) = observed_prove_src(&cfg, &wit, &CTX_A, None, &mut res, &format!("os-rng-{}", i)) {
                check_within(&r, &format!("os-rng-{}", i), &mut res);
                os_runs.push(r);
            }
        }
        if os_runs.len() == 2 {
            res.transitions += 1;
            if !seeded {
                let set_b: BTreeMap<[u8; 32], String> = os_runs[1].nonces.all().into_iter().map(|(n, v)| (v.to_bytes(), n)).collect();
                for (name, v) in os_runs[0].nonces.all() {
                    res.validated += 1;
                    if let Some(other) = set_b.get(&v.to_bytes()) {
                        res.violate(format!("os-rng/{}", name), format!("two calls of the OS-randomness entry point with identical inputs share nonce {} (= {})", name, other));
                    }
                }
            } else if os_runs[0].nonces.r == os_runs[1].nonces.r || os_runs[0].nonces.s == os_runs[1].nonces.s {
                res.violate("os-rng/rs", "two calls of the OS-randomness entry point with identical inputs share a final masking scalar");
            }
        }
        // a stuck external generator: the nonces of one proof must still be nonzero and pairwise distinct
        for fault in ["zero", "const5a"] {
            if let Some(r) = observed_prove(&cfg, &wit, &CTX_A, &mut HRng::from_model(fault), &mut res, fault) {
                check_within(&r, fault, &mut res);
            }
        }
        for (s, r) in streams.iter().zip(runs.iter()) {
            check_within(r, s, &mut res);
            // what the transcript RNG handed out == the RNG-derived nonces read from the proof
            let mut from_proof: Vec<[u8; 32]> = if seeded {
                vec![r.nonces.r.to_bytes(), r.nonces.s.to_bytes()]
            } else {
                r.nonces.all().iter().map(|x| x.1.to_bytes()).collect()
            };
            let mut from_rng: Vec<[u8; 32]> = r.rng_scalars.iter().map(|x| x.to_bytes()).collect();
            from_proof.sort();
            from_rng.sort();
            res.validated += 1;
            if from_proof != from_rng {
                // how many draws the prover makes, and whether it post-processes them, is an implementation choice: noted
                res.binding_note(
                    format!("{}/source", s),
                    format!(
                        "{} nonces in the proof come from the RNG but the transcript RNG handed out {} scalars (sets differ)",
                        from_proof.len(),
                        from_rng.len()
                    ),
                );
            }
        }
        // every ordered pair of distinct streams
        for a in 0..runs.len() {
            for b in 0..runs.len() {
                if a == b {
                    continue;
                }
                res.transitions += 1;
                let na = runs[a].nonces.all();
                let nb = runs[b].nonces.all();
                if !seeded {
                    // all-pairs: no nonce of run a equals any nonce of run b
                    let set_b: BTreeMap<[u8; 32], &String> = nb.iter().map(|(n, v)| (v.to_bytes(), n)).collect();
                    for (name, v) in &na {
                        res.validated += 1;
                        if let Some(other) = set_b.get(&v.to_bytes()) {
                            res.violate(
                                format!("{}-vs-{}/{}", streams[a], streams[b], name),
                                format!("nonce {} of one run equals nonce {} of a run with different randomness", name, other),
                            );
                        }
                    }
                } else {
                    // r, s still come from the RNG and differ between proofs
                    for (name, x, y) in [("r", runs[a].nonces.r, runs[b].nonces.r), ("s", runs[a].nonces.s, runs[b].nonces.s)] {
                        res.validated += 1;
                        if x == y {
                            res.violate(format!("{}-vs-{}/{}", streams[a], streams[b], name), format!("final masking scalar {} is the same in two proofs made with different randomness", name));
                        }
                    }
                    if runs[a].nonces.r == runs[b].nonces.s {
                        res.violate(format!("{}-vs-{}/r=s", streams[a], streams[b]), "r of one run equals s of another");
                    }
                }
            }
        }
        if seeded {
            // the seed-derived ones are exactly the documented function of the seed
            let expect = Nonces::from_seed(&seed, cfg.rounds(), cfg.d, Scalar::ZERO, Scalar::ZERO);
            for r in &runs {
                let got = &r.nonces;
                res.validated += 1;
                if got.alpha != expect.alpha || got.dl != expect.dl || got.dr != expect.dr || got.delta != expect.delta || got.eta != expect.eta {
                    let mut which = Vec::new();
                    if got.alpha != expect.alpha {
                        which.push("alpha");
                    }
                    if got.dl != expect.dl {
                        which.push("dL");
                    }
                    if got.dr != expect.dr {
                        which.push("dR");
                    }
                    if got.delta != expect.delta {
                        which.push("d");
                    }
                    if got.eta != expect.eta {
                        which.push("eta");
                    }
                    res.violate("seed-function", format!("seed-derived nonces {:?} are not the documented function of the seed", which));
                }
                // r, s are not seed-derived values
                let seedvals: Vec<Scalar> = expect.all().into_iter().map(|x| x.1).collect();
                if seedvals.contains(&got.r) || seedvals.contains(&got.s) {
                    res.violate("seed-function/rs", "r or s equals a seed-derived value");
                }
            }
        }
        res.sample = Some(json!({"cfg": cfg.key(), "seeded": seeded, "nonces_per_proof": runs[0].nonces.all().len()}));
        res
    })
}

/// Environment deviations on the transcript RNG: a window of 1 or 2 consecutive outputs is the sample that reduces to zero.
/// A nonce is then the next nonzero output (rejection sampling); it is never zero, never a repeat and never a value the
/// generator did not hand out.
fn zero_draw_case(cfg: Cfg, seeded: bool) -> Box<dyn Case> {
    case(format!("{}/seeded={}/zero-rng-outputs", cfg.key(), seeded), move |_v| {
        fg::clear_intern();
        let mut res = CaseResult::new("explored");
        let mut wit = Wit::default_for(&cfg);
        if seeded {
            wit.seed = Some(seed_scalar(31));
        }
        merlin::observe::zero_rng_fills(None);
        let base = match observed_prove(&cfg, &wit, &CTX_A, &mut HRng::chacha(9), &mut res, "zero-draws/base") {
            Some(b) => b,
            None => {
                res.outcome = "prover-failed(skipped)".into();
                return res;
            },
        };
        let draws = base.rng_scalars.len();
        for window in [1usize, 2] {
            for at in 0..draws {
                res.transitions += 1;
                merlin::observe::zero_rng_fills(Some((at, window)));
                let sub = format!("zero-draws/at={},len={}", at, window);
                let run = observed_prove(&cfg, &wit, &CTX_A, &mut HRng::chacha(9), &mut res, &sub);
                merlin::observe::zero_rng_fills(None);
                let run = match run {
                    Some(r) => r,
                    None => {
                        res.violate(format!("{}/prove", sub), "the prover fails when the generator returns a zero sample");
                        continue;
                    },
                };
                *res.outcome_counter("zero-output-deviations") += 1;
                if run.rng_scalars.iter().filter(|x| **x == Scalar::ZERO).count() < window {
                    res.machinery_error(format!("{}: the deviation did not take effect", sub));
                }
                if !run.validated {
                    // r and s cannot be read back exactly (the proof is not the reference protocol's: C02 / C19); under a deviation
                    // the guess from the trace is not usable, so this run is not judged
                    *res.outcome_counter("read-back-not-validated(skipped)") += 1;
                    continue;
                }
                check_within(&run, &sub, &mut res);
                // every RNG-derived nonce is an output of the generator
                let handed: std::collections::BTreeSet<[u8; 32]> = run.rng_scalars.iter().map(|x| x.to_bytes()).collect();
                for (name, v) in run.nonces.all() {
                    let rng_derived = !seeded || name == "r" || name == "s";
                    if rng_derived {
                        res.validated += 1;
                        if !handed.contains(&v.to_bytes()) {
                            res.violate(
                                format!("{}/source/{}", sub, name),
                                format!("nonce {} is not a value the generator handed out (after {} zero sample(s) at output {})", name, window, at),
                            );
                        }
                    }
                }
            }
        }
        res
    })
}

pub fn run(rep: &mut Report) {
    rep.rule = "configuration lattice x seed {absent, present (m=1)} x two witnesses x three RNG streams (every ordered pair), two calls of the OS-randomness entry point, two stuck generators (within-proof distinctness only), and every window of 1 or 2 consecutive transcript-RNG outputs replaced by the zero sample (4 configurations): nonces \
                (alpha_k, dL_jk, dR_jk, d_k, eta_k, r, s) read back from the coordinates of the library's proof over F; oracle: nonzero, \
                pairwise distinct within a proof; unseeded: no nonce of one run equals ANY nonce of another run; seeded: alpha, dL, dR, \
                d, eta equal the documented keyed-Blake2b function, r and s still differ between runs; the read-back is validated by the \
                reference prover rebuilding the identical proof, and the RNG-derived set equals what the transcript RNG handed out"
        .into();
    rep.assume("nonces are observed over the free-module group; nonce generation does not depend on the group backend");
    let mut cases: Vec<Box<dyn Case>> = Vec::new();
    for cfg in lattice(rep.tier.thorough()) {
        for wv in 0..2 {
            cases.push(nonce_case(cfg, false, wv));
            if cfg.m == 1 {
                cases.push(nonce_case(cfg, true, wv));
            }
        }
    }
    for cfg in [Cfg::new(2, 1, 1, 1), Cfg::new(2, 1, 1, 2), Cfg::new(4, 2, 2, 3), Cfg::new(8, 1, 2, 6)] {
        cases.push(zero_draw_case(cfg, false));
        if cfg.m == 1 {
            cases.push(zero_draw_case(cfg, true));
        }
    }
    rep.explore("C13", cases);
    rep.expect_sub_outcome("zero-output-deviations");
}
