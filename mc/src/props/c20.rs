//! C20 Secrets are wiped from heap memory before it is released (DESIGN.md 3, C20)
//!
//! Every block released while a library operation runs (and every pre-realloc block) is scanned by the allocator
//! monitor for the raw byte patterns of the secrets in play. Ristretto only: over the free-module group public points
//! carry the blinding factors as readable coordinates by construction, so freed group elements would be harness
//! artefacts, not library leaks.

use std::mem::MaybeUninit;

use curve25519_dalek::{ristretto::RistrettoPoint, scalar::Scalar};
use serde_json::json;
use tari_bulletproofs_plus::{
    commitment_opening::CommitmentOpening,
    extended_mask::ExtendedMask,
    range_proof::VerifyAction,
    range_statement::RangeStatement,
    range_witness::RangeWitness,
};

use crate::{
    allocmon,
    api::{ext, HRng, G},
    common::*,
    engine::{case, Case, CaseResult, Report},
};

type P = RistrettoPoint;

const OPS: [&str; 19] = [
    "opening-new-drop",
    "opening-clone-drop",
    "opening-clone-from",
    "witness-init-drop",
    "witness-init-refused",
    "witness-clone-drop",
    "witness-opening-taken-then-drop",
    "mask-assign-drop",
    "mask-compare-drop",
    "statement-seeded-clone-drop",
    "statement-inline-seed",
    "prove-unseeded",
    "prove-seeded",
    "prove-refused",
    "verify-recover",
    "verify-recover-then-fail",
    "statement-on-heap-drop",
    "thread-exit-after-seeded-use",
    "commit",
];

struct Secrets {
    wit: Wit,
    patterns: Vec<Vec<u8>>,
    names: Vec<String>,
}

fn secrets(cfg: &Cfg, seeded: bool) -> Secrets {
    let mut wit = Wit::default_for(cfg);
    let mut patterns = Vec::new();
    let mut names = Vec::new();
    for j in 0..cfg.m {
        for k in 0..cfg.d {
            wit.blindings[j][k] = blinding(600 + j, k);
            patterns.push(wit.blindings[j][k].as_bytes().to_vec());
            names.push(format!("blinding[{}][{}]", j, k));
        }
        if cfg.n == 64 {
            // a distinctive 64-bit value: its 8-byte little-endian form is a meaningful pattern
            wit.values[j] = 0xA5C3_19E7_5B2D_F100u64 + j as u64;
            patterns.push(wit.values[j].to_le_bytes().to_vec());
            names.push(format!("value[{}]", j));
            // ... and its text renderings (a value formatted into a message is the value)
            patterns.push(wit.values[j].to_string().into_bytes());
            names.push(format!("value[{}] as decimal text", j));
            patterns.push(format!("{:x}", wit.values[j]).into_bytes());
            names.push(format!("value[{}] as hexadecimal text", j));
            // a satisfied promise at the first position (public data; exercises the promise paths of prover and verifier)
            if j == 0 {
                // (a third, so that value - promise is not the public promise itself)
                wit.promises[0] = Some(wit.values[0] / 3);
                // the value the prover actually decomposes into bits: as secret as the value itself
                patterns.push((wit.values[0] - wit.values[0] / 3).to_le_bytes().to_vec());
                names.push("value[0] - promise[0]".to_string());
            }
        }
    }
    if seeded {
        let s = seed_scalar(77);
        wit.seed = Some(s);
        patterns.push(s.as_bytes().to_vec());
        names.push("seed".to_string());
    }
    Secrets { wit, patterns, names }
}

fn report(res: &mut CaseResult, sec: &Secrets, what: &str, rep: allocmon::ScanReport) {
    res.executions += 1;
    res.validated += rep.frees_inspected;
    res.extra_states += rep.frees_inspected;
    *res.outcome_counter("frees-inspected") += rep.frees_inspected;
    if rep.hits > 0 {
        let which: Vec<String> = rep
            .hit_list
            .iter()
            .map(|(p, size)| format!("{} in a freed {}-byte block", sec.names.get(*p).cloned().unwrap_or_default(), size))
            .collect();
        res.violate(
            what.to_string(),
            format!("{} freed heap block(s) still held a secret ({} frees inspected): {:?}", rep.hits, rep.frees_inspected, &which[..which.len().min(4)]),
        );
    }
}

fn op_case(cfg: Cfg, op: &'static str) -> Box<dyn Case> {
    case(format!("{}/{}", cfg.key(), op), move |_v| {
        let mut res = CaseResult::new("clean");
        // every block allocated from here on starts out free of stale bytes
        allocmon::hygiene(true);
        let res2 = op_body(cfg, op, &mut res);
        allocmon::hygiene(false);
        let _ = res2;
        res
    })
}

fn op_body(cfg: Cfg, op: &'static str, res: &mut CaseResult) -> Option<()> {
    {
        let mut res = res;
        let seeded = cfg.m == 1 && op != "prove-unseeded";
        let sec = secrets(&cfg, seeded);
        allocmon::set_patterns(&sec.patterns);
        let wit = &sec.wit;
        let mk_openings = |w: &Wit| -> Vec<CommitmentOpening> {
            w.values.iter().zip(w.blindings.iter()).map(|(v, r)| CommitmentOpening::new(*v, r.clone())).collect()
        };
        match op {
            "opening-new-drop" => {
                allocmon::arm();
                let o = CommitmentOpening::new(wit.values[0], wit.blindings[0].clone());
                drop(o);
                report(&mut res, &sec, op, allocmon::disarm());
            },
            "opening-clone-drop" => {
                let o = CommitmentOpening::new(wit.values[0], wit.blindings[0].clone());
                allocmon::arm();
                let o2 = o.clone();
                drop(o2);
                drop(o);
                report(&mut res, &sec, op, allocmon::disarm());
            },
            "opening-clone-from" => {
                // clone_from onto an opening with another number of blinding factors (and onto a vector of openings of another
                // length): the storage that is replaced held secrets
                let mut o = CommitmentOpening::new(wit.values[0], wit.blindings[0].clone());
                let other = CommitmentOpening::new(7, vec![Scalar::ONE; cfg.d + 1]);
                allocmon::arm();
                o.clone_from(&other);
                drop(o);
                report(&mut res, &sec, op, allocmon::disarm());
                let mut v = mk_openings(wit);
                let shorter: Vec<CommitmentOpening> = vec![];
                let longer: Vec<CommitmentOpening> = (0..cfg.m + 1).map(|_| CommitmentOpening::new(3, vec![Scalar::ONE; (cfg.d % 6) + 1])).collect();
                allocmon::arm();
                v.clone_from(&longer);
                v.clone_from(&shorter);
                drop(v);
                report(&mut res, &sec, op, allocmon::disarm());
            },
            "witness-init-drop" => {
                allocmon::arm();
                let w = RangeWitness::init(mk_openings(wit)).unwrap();
                drop(w);
                report(&mut res, &sec, op, allocmon::disarm());
                // the same with an openings vector that has spare capacity (built by push): whatever the constructor does with
                // the vector it was handed, the buffer that held the values is wiped before it is freed
                allocmon::arm();
                let mut v: Vec<CommitmentOpening> = Vec::with_capacity(cfg.m + 5);
                for (val, r) in wit.values.iter().zip(wit.blindings.iter()) {
                    v.push(CommitmentOpening::new(*val, r.clone()));
                }
                let w = RangeWitness::init(v).unwrap();
                drop(w);
                report(&mut res, &sec, op, allocmon::disarm());
            },
            "witness-init-refused" => {
                // inconsistent blinding counts: the constructor refuses and drops the openings it was handed
                let mut w2 = wit.clone();
                w2.values.push(wit.values[0]);
                w2.blindings.push(vec![wit.blindings[0][0]; cfg.d + 1]);
                allocmon::arm();
                let r = RangeWitness::init(mk_openings(&w2));
                let refused = r.is_err();
                drop(r);
                report(&mut res, &sec, op, allocmon::disarm());
                if !refused {
                    res.machinery_error("witness with inconsistent blinding counts was not refused");
                }
            },
            "witness-clone-drop" => {
                let w = RangeWitness::init(mk_openings(wit)).unwrap();
                allocmon::arm();
                let w2 = w.clone();
                drop(w2);
                drop(w);
                report(&mut res, &sec, op, allocmon::disarm());
            },
            "witness-opening-taken-then-drop" => {
                // the caller moves an opening out of the witness (its `openings` field is public): the slot it occupied still
                // holds the value inline; dropping the witness must wipe the whole buffer, not only the live elements
                allocmon::arm();
                let mut w = RangeWitness::init(mk_openings(wit)).unwrap();
                let taken = w.openings.pop();
                drop(w);
                drop(taken);
                report(&mut res, &sec, op, allocmon::disarm());
                let mut w = RangeWitness::init(mk_openings(wit)).unwrap();
                allocmon::arm();
                let taken = w.openings.swap_remove(0);
                drop(w);
                drop(taken);
                report(&mut res, &sec, op, allocmon::disarm());
            },
            "mask-assign-drop" => {
                allocmon::arm();
                let m = ExtendedMask::assign(ext(cfg.d), wit.blindings[0].clone()).unwrap();
                drop(m);
                report(&mut res, &sec, op, allocmon::disarm());
            },
            "mask-compare-drop" => {
                // comparing masks (what a wallet does with a recovered mask) makes no un-wiped copies
                let m1 = ExtendedMask::assign(ext(cfg.d), wit.blindings[0].clone()).unwrap();
                let m2 = ExtendedMask::assign(ext(cfg.d), wit.blindings[0].clone()).unwrap();
                let v1 = vec![Some(ExtendedMask::assign(ext(cfg.d), wit.blindings[0].clone()).unwrap()), None];
                let v2 = vec![Some(ExtendedMask::assign(ext(cfg.d), wit.blindings[0].clone()).unwrap()), None];
                allocmon::arm();
                let same = m1 == m2 && v1 == v2 && m1 != ExtendedMask::assign(ext(cfg.d), vec![Scalar::ONE; cfg.d]).unwrap();
                drop(m1);
                drop(m2);
                drop(v1);
                drop(v2);
                report(&mut res, &sec, op, allocmon::disarm());
                if !same {
                    res.machinery_error("equal masks compared unequal");
                }
            },
            "statement-seeded-clone-drop" => {
                let params = params_cached::<P>(&cfg);
                let cs = commitments_for(params.pc_gens(), wit).unwrap();
                allocmon::arm();
                let st = P::statement(params.clone(), cs, wit.promises.clone(), wit.seed).unwrap();
                let st2 = st.clone();
                drop(st);
                drop(st2);
                report(&mut res, &sec, op, allocmon::disarm());
            },
            "statement-inline-seed" => {
                if let Some(seed) = wit.seed {
                    let params = params_cached::<P>(&cfg);
                    let cs = commitments_for(params.pc_gens(), wit).unwrap();
                    let st = P::statement(params, cs, wit.promises.clone(), wit.seed).unwrap();
                    let mut slot: MaybeUninit<RangeStatement<P>> = MaybeUninit::new(st);
                    let size = std::mem::size_of::<RangeStatement<P>>();
                    let raw_before: Vec<u8> = unsafe { std::slice::from_raw_parts(slot.as_ptr() as *const u8, size).to_vec() };
                    unsafe { std::ptr::drop_in_place(slot.as_mut_ptr()) };
                    let raw_after: Vec<u8> = unsafe { std::slice::from_raw_parts(slot.as_ptr() as *const u8, size).to_vec() };
                    res.executions += 1;
                    res.validated += 1;
                    let needle = seed.as_bytes();
                    let has = |hay: &[u8]| hay.windows(32).any(|w| w == needle);
                    if !has(&raw_before) {
                        res.machinery_error("the inline seed was not found in the live statement (layout assumption broken)");
                    }
                    if has(&raw_after) {
                        res.violate(op, "the seed held inline in the statement is still there after the statement was dropped");
                    }
                } else {
                    res.outcome = "not-applicable".into();
                }
            },
            "prove-unseeded" | "prove-seeded" => {
                if op == "prove-seeded" && cfg.m != 1 {
                    res.outcome = "not-applicable".into();
                    return Some(());
                }
                let built = build_cached::<P>(&cfg, wit).honest();
                let mut rng = HRng::chacha(5);
                allocmon::arm();
                let mut t = CTX_A.transcript();
                let proof = P::prove(&mut t, &built.statement, &built.witness, &mut rng);
                let rep = allocmon::disarm();
                if proof.is_err() {
                    res.outcome = "honest-prove-failed(noted)".into();
                }
                report(&mut res, &sec, op, rep);
                // dropping the witness and statement afterwards
                allocmon::arm();
                drop(built);
                report(&mut res, &sec, "drop-after-prove", allocmon::disarm());
            },
            "prove-refused" => {
                // each early-refusal path of the prover
                let built = build_cached::<P>(&cfg, wit).honest();
                let mut variants: Vec<(&str, Wit, Vec<Option<u64>>)> = Vec::new();
                let mut w = wit.clone();
                w.blindings[0][0] += Scalar::ONE;
                variants.push(("wrong-opening", w, wit.promises.clone()));
                let mut pr = wit.promises.clone();
                pr[cfg.m - 1] = Some(wit.values[cfg.m - 1].saturating_add(1));
                if wit.values[cfg.m - 1] < u64::MAX {
                    variants.push(("promise-above-value", wit.clone(), pr));
                }
                let mut w = wit.clone();
                w.values.push(1);
                w.blindings.push(wit.blindings[0].clone());
                variants.push(("too-many-openings", w, wit.promises.clone()));
                for (name, w2, promises) in variants {
                    let st = restate(&built, built.commitments.clone(), promises, wit.seed).unwrap();
                    let witness = witness_for(&w2).unwrap();
                    let mut rng = HRng::chacha(6);
                    allocmon::arm();
                    let mut t = CTX_A.transcript();
                    let r = P::prove(&mut t, &st, &witness, &mut rng);
                    let refused = r.is_err();
                    drop(r);
                    drop(witness);
                    report(&mut res, &sec, &format!("prove-refused/{}", name), allocmon::disarm());
                    if !refused {
                        *res.outcome_counter("prover-did-not-refuse(noted)") += 1;
                    }
                }
            },
            "verify-recover" => {
                if cfg.m != 1 {
                    res.outcome = "not-applicable".into();
                    return Some(());
                }
                let built = build_cached::<P>(&cfg, wit).honest();
                let proof = match lib_prove(&built, &CTX_A, &mut HRng::chacha(7)) {
                    Ok(p) => p,
                    Err(_) => {
                        res.outcome = "honest-prove-failed(noted)".into();
                        return Some(());
                    },
                };
                for mode in [VerifyAction::RecoverAndVerify, VerifyAction::RecoverOnly] {
                    let mut ts = vec![CTX_A.transcript()];
                    allocmon::arm();
                    let r = P::verify(&mut ts, std::slice::from_ref(&built.statement), std::slice::from_ref(&proof), mode);
                    let ok = matches!(&r, Ok(m) if m.len() == 1 && m[0].is_some());
                    drop(r); // the returned masks are released inside the window
                    report(&mut res, &sec, &format!("verify-recover/{}", mode_name(mode)), allocmon::disarm());
                    if !ok {
                        *res.outcome_counter("recovering-verification-returned-no-mask(noted)") += 1;
                    }
                }
            },
            "verify-recover-then-fail" => {
                // a mask is recovered for the first member, then the call fails: on a later malformed member, on a later
                // member that does not verify, and on a wrong transcript for the member itself
                if cfg.m != 1 {
                    res.outcome = "not-applicable".into();
                    return Some(());
                }
                let built = build_cached::<P>(&cfg, wit).honest();
                let proof = lib_prove_honest(&built, &CTX_A, &mut HRng::chacha(7));
                let comp_wit = Wit::default_for(&cfg);
                let comp = build_cached::<P>(&cfg, &comp_wit).honest();
                let comp_proof = lib_prove_honest(&comp, &CTX_A, &mut HRng::chacha(8));
                let mut variants: Vec<(&str, Vec<RangeStatement<P>>, Vec<tari_bulletproofs_plus::range_proof::RangeProof<P>>, Vec<Ctx>)> = Vec::new();
                variants.push((
                    "second-member-fails-final-check",
                    vec![built.statement.clone(), comp.statement.clone()],
                    vec![P::proof_clone(&proof), P::proof_clone(&comp_proof)],
                    vec![CTX_A, contexts()[1]],
                ));
                if let Some(mut rp) = ref_proof_of(&comp_proof).filter(|r| !r.l.is_empty()) {
                    rp.l[0] = [0xffu8; 32];
                    let bad = P::from_bytes(&crate::refbp::ref_encode(&rp)).unwrap();
                    variants.push(("second-member-undecodable", vec![built.statement.clone(), comp.statement.clone()], vec![P::proof_clone(&proof), bad], vec![CTX_A, CTX_A]));
                }
                variants.push(("own-transcript-wrong", vec![built.statement.clone()], vec![P::proof_clone(&proof)], vec![contexts()[2]]));
                for (name, sts, proofs, ctxs) in variants {
                    for mode in [VerifyAction::RecoverAndVerify, VerifyAction::RecoverOnly] {
                        let mut ts: Vec<merlin::Transcript> = ctxs.iter().map(|c| c.transcript()).collect();
                        allocmon::arm();
                        let r = P::verify(&mut ts, &sts, &proofs, mode);
                        let failed = r.is_err();
                        drop(r);
                        report(res, &sec, &format!("verify-recover-then-fail/{}/{}", name, mode_name(mode)), allocmon::disarm());
                        if !failed && mode == VerifyAction::RecoverAndVerify {
                            *res.outcome_counter("failing-variant-did-not-fail(noted)") += 1;
                        }
                    }
                }
            },
            "statement-on-heap-drop" => {
                // seeded statements living on the heap (boxed, and in a vector as handed to verify_batch)
                if wit.seed.is_none() {
                    res.outcome = "not-applicable".into();
                    return Some(());
                }
                let params = params_cached::<P>(&cfg);
                let cs = commitments_for(params.pc_gens(), wit).unwrap();
                let st = P::statement(params, cs, wit.promises.clone(), wit.seed).unwrap();
                allocmon::arm();
                let boxed = Box::new(st.clone());
                let mut v: Vec<RangeStatement<P>> = Vec::with_capacity(2);
                v.push(st.clone());
                v.push(st);
                drop(boxed);
                drop(v);
                report(res, &sec, op, allocmon::disarm());
            },
            "thread-exit-after-seeded-use" => {
                // a thread proves with a seed, recovers, drops everything and terminates: whatever the library left in
                // thread-local buffers is released while the thread shuts down -- still inspected
                if wit.seed.is_none() {
                    res.outcome = "not-applicable".into();
                    return Some(());
                }
                let hits = std::sync::Arc::new(std::sync::atomic::AtomicU64::new(0));
                let frees = std::sync::Arc::new(std::sync::atomic::AtomicU64::new(0));
                let (h2, f2) = (hits.clone(), frees.clone());
                // secrets reach the thread behind Arcs whose last reference is dropped on this (un-armed) thread: the
                // thread's own closure environment, which std frees during thread shutdown, then holds pointers only
                let patterns = std::sync::Arc::new(sec.patterns.clone());
                let wit2 = std::sync::Arc::new(wit.clone());
                let (patterns_keep, wit_keep) = (patterns.clone(), wit2.clone());
                let handle = std::thread::spawn(move || {
                    allocmon::hygiene(true);
                    allocmon::set_patterns(&patterns);
                    let built = match build::<P>(&cfg, &wit2) {
                        Ok(b) => b,
                        Err(_) => return (h2, f2),
                    };
                    allocmon::set_sinks(std::sync::Arc::as_ptr(&h2), std::sync::Arc::as_ptr(&f2));
                    allocmon::arm();
                    let proof = match lib_prove(&built, &CTX_A, &mut HRng::chacha(7)) {
                        Ok(p) => p,
                        Err(_) => {
                            allocmon::disarm();
                            return (h2, f2);
                        },
                    };
                    let mut ts = vec![CTX_A.transcript()];
                    let r = P::verify(&mut ts, std::slice::from_ref(&built.statement), std::slice::from_ref(&proof), VerifyAction::RecoverOnly);
                    drop(r);
                    drop(proof);
                    drop(built);
                    drop(wit2);
                    drop(patterns);
                    // the thread ends here with the monitor still armed
                    (h2, f2)
                });
                let keep = handle.join();
                drop(patterns_keep);
                drop(wit_keep);
                res.executions += 1;
                let n_frees = frees.load(std::sync::atomic::Ordering::SeqCst);
                let n_hits = hits.load(std::sync::atomic::Ordering::SeqCst);
                res.validated += n_frees;
                res.extra_states += n_frees;
                *res.outcome_counter("frees-inspected") += n_frees;
                if keep.is_err() {
                    res.machinery_error("worker thread panicked");
                }
                if n_hits > 0 {
                    res.violate(op, format!("{} heap block(s) released by a terminating thread (during its calls or while it shut down) still held a secret ({} frees inspected)", n_hits, n_frees));
                }
            },
            "commit" => {
                let pc = P::pc_gens(cfg.d);
                allocmon::arm();
                let c = P::commit(&pc, &Scalar::from(wit.values[0]), &wit.blindings[0]);
                drop(c);
                report(&mut res, &sec, op, allocmon::disarm());
            },
            _ => unreachable!(),
        }
        res.sample = Some(json!({"cfg": cfg.key(), "op": op, "patterns": sec.names.len()}));
    }
    Some(())
}

/// The monitor itself: a deliberately leaky operation must be flagged (else the exploration is vacuous)
fn self_test() -> Result<u64, String> {
    let secret = blinding(999, 0);
    allocmon::set_patterns(&[secret.as_bytes().to_vec()]);
    allocmon::arm();
    let v: Vec<Scalar> = vec![secret; 3];
    drop(v);
    let mut grow: Vec<u8> = Vec::with_capacity(32);
    grow.extend_from_slice(secret.as_bytes());
    grow.extend_from_slice(&[0u8; 64]); // realloc: the old block must be inspected
    let was = allocmon::pause();
    let keep = grow.clone();
    allocmon::resume(was);
    for b in grow.iter_mut() {
        *b = 0;
    }
    drop(grow);
    let rep = allocmon::disarm();
    drop(keep);
    if rep.hits < 2 {
        return Err(format!("monitor self-test: expected 2 hits (plain free + pre-realloc block), got {}", rep.hits));
    }
    Ok(rep.frees_inspected)
}

pub fn run(rep: &mut Report) {
    rep.rule = "configurations (quick lattice with aggregation <= 2, plus aggregation 8 and degrees 3..5 at 8 bits) x 16 operations \
                {opening new/clone+drop, witness init/refused/clone+drop, mask assign+drop, seeded statement init+clone+drop, inline \
                seed after drop_in_place, prove seeded/unseeded + drop, each early-refusal path of the prover, recovering verification in \
                both modes + drop of the masks, recovering verification that fails after the mask was recovered (later member fails / is \
                malformed / wrong transcript), seeded statements dropped while on the heap, a thread that terminates after seeded proving and recovery (frees during \
                thread shutdown included), commit}; every block released while the operation runs (and every pre-realloc block) is \
                scanned for the 32-byte encodings of every blinding factor / mask component / seed and the 8-byte encoding of a \
                distinctive 64-bit value; distinct = (configuration, operation), non-trivial = at least one free inspected"
        .into();
    rep.assume("exact-byte matching: raw secrets on the heap, not values derived from them (bit vectors, NAF digit tables inside curve25519-dalek); stack and registers are out of scope");
    rep.assume("Ristretto instantiation only (over the free-module group public points carry the secrets as coordinates by construction)");
    match self_test() {
        Ok(_) => {},
        Err(e) => rep.machinery.push(e),
    }
    let mut cfgs: Vec<Cfg> = lattice_quick().into_iter().filter(|c| c.m <= 2).collect();
    for d in [3usize, 4, 5] {
        cfgs.push(Cfg::new(8, 1, 1, d));
        cfgs.push(Cfg::new(8, 2, 2, d));
    }
    cfgs.push(Cfg::new(8, 8, 8, 2));
    cfgs.push(Cfg::new(64, 4, 4, 1));
    if rep.tier.thorough() {
        cfgs.extend(lattice_full().into_iter().filter(|c| c.m <= 4 && c.c <= 8));
    }
    cfgs.sort();
    cfgs.dedup();
    let mut cases: Vec<Box<dyn Case>> = Vec::new();
    for cfg in cfgs {
        for op in OPS {
            cases.push(op_case(cfg, op));
        }
    }
    rep.explore("C20", cases);
    rep.expect_outcome("clean");
    rep.expect_sub_outcome("frees-inspected");
}
