//! C10 Mask recovery is keyed by the seed and never changes the verdict (DESIGN.md 3, C10)

use curve25519_dalek::{ristretto::RistrettoPoint, scalar::Scalar};
use serde_json::json;
use tari_bulletproofs_plus::range_proof::VerifyAction;

use crate::{
    api::{HRng, G},
    common::*,
    engine::{case, Case, CaseResult, Report, Tier},
    fg::{self, F},
    mutate::{self, Mut},
    refbp,
};

/// seeds other than the prover's: +1, each single byte flipped (bit 0 of byte i), unrelated
fn other_seeds(s: &Scalar, all_bytes: bool) -> Vec<(String, Scalar)> {
    let mut v = vec![
        ("s+1".to_string(), s + Scalar::ONE),
        ("unrelated".to_string(), seed_scalar(99)),
        // the corners of the scalar field are seeds like any other
        ("zero".to_string(), Scalar::ZERO),
        ("one".to_string(), Scalar::ONE),
        ("minus-one".to_string(), -Scalar::ONE),
        ("-s".to_string(), -s),
    ];
    let bytes: Vec<usize> = if all_bytes { (0..32).collect() } else { vec![0, 15, 30, 31] };
    for i in bytes {
        let mut b = s.to_bytes();
        b[i] ^= 1;
        let t = Scalar::from_bytes_mod_order(b);
        if t != *s {
            v.push((format!("byte{}^1", i), t));
        }
    }
    v
}

fn keyed_case<P: G>(cfg: Cfg, tier: Tier) -> Box<dyn Case> {
    keyed_case_variant::<P>(cfg, tier, false)
}

/// `zero_component`: the last blinding component of the commitment is zero (a mask like any other: recovering it with the
/// prover's seed succeeds, and the verdict does not depend on it)
fn keyed_case_variant<P: G>(cfg: Cfg, tier: Tier, zero_component: bool) -> Box<dyn Case> {
    case(format!("{}/{}{}", P::NAME, cfg.key(), if zero_component { "/zero-blinding-component" } else { "" }), move |_v| {
        fg::clear_intern();
        let mut res = CaseResult::new("explored");
        let mut wit = Wit::default_for(&cfg);
        if zero_component {
            wit.blindings[0][cfg.d - 1] = Scalar::ZERO;
        }
        let s = seed_scalar(5);
        wit.seed = Some(s);
        let built = build_cached::<P>(&cfg, &wit).honest();
        let proof = lib_prove_honest(&built, &CTX_A, &mut HRng::chacha(61));
        let truth = wit.blindings[0].clone();
        let bytes = P::to_bytes(&proof);
        let h = built.params.h_base().clone();
        // proofs: the valid one plus one invalid mutant per component class
        let mut proofs: Vec<(String, Vec<u8>, bool)> = vec![("valid".into(), bytes.clone(), true)];
        if let Some(rp) = refbp::ref_decode(&bytes) {
            for m in mutate::menu(&rp, !tier.thorough()) {
                if matches!(m, Mut::ExtTag(_)) {
                    continue;
                }
                if let Some(b) = mutate::apply::<P>(&rp, &m, &h) {
                    let structural = matches!(m, Mut::ScalarAdd1(_) | Mut::ScalarZero(_) | Mut::ScalarNeg(_) | Mut::ScalarCopy(..) | Mut::PointPlusH(_) | Mut::SwapLR(_));
                    proofs.push((format!("{:?}", m), b, structural));
                }
            }
        }
        let mut seeds: Vec<(String, Option<Scalar>)> = vec![("none".into(), None), ("prover".into(), Some(s))];
        for (n, t) in other_seeds(&s, tier.thorough() || cfg.n == 8) {
            seeds.push((n, Some(t)));
        }
        for (pname, pbytes, structurally_valid) in &proofs {
            let proof_obj = if pname == "valid" {
                P::proof_clone(&proof)
            } else {
                match P::from_bytes(pbytes) {
                    Ok(p) => p,
                    Err(_) => continue,
                }
            };
            let mut verdicts: Vec<(String, bool)> = Vec::new();
            for (sname, seed) in &seeds {
                res.transitions += 1;
                let st = restate(&built, built.commitments.clone(), wit.promises.clone(), *seed).unwrap();
                let vo = verify_observed_one(&st, &proof_obj, &CTX_A, VerifyAction::VerifyOnly);
                let rv = verify_observed_one(&st, &proof_obj, &CTX_A, VerifyAction::RecoverAndVerify);
                let ro = verify_observed_one(&st, &proof_obj, &CTX_A, VerifyAction::RecoverOnly);
                res.executions += 3;
                res.validated += 1;
                let sub = format!("{}/seed={}", pname, sname);
                for o in [&vo, &rv, &ro] {
                    if o.panic.is_some() {
                        res.violate(sub.clone(), format!("panic: {}", o.describe()));
                    }
                }
                *res.outcome_counter(&format!("verdict:{}", vo.class())) += 1;
                if vo.is_ok() != rv.is_ok() {
                    res.violate(
                        format!("{}/verdict", sub),
                        format!("verdict differs between modes: VerifyOnly {} vs RecoverAndVerify {}", vo.describe(), rv.describe()),
                    );
                }
                verdicts.push((sname.clone(), rv.is_ok()));
                // recover-only agrees with recover-and-verify whenever the latter accepts
                if let (Some(Ok(a)), Some(Ok(b))) = (&rv.result, &ro.result) {
                    if a != b {
                        res.violate(format!("{}/recover-only", sub), "RecoverOnly returns masks different from RecoverAndVerify on an accepted proof");
                    }
                }
                if rv.is_ok() && !ro.is_ok() {
                    res.violate(format!("{}/recover-only", sub), format!("RecoverOnly failed on a proof RecoverAndVerify accepts: {}", ro.describe()));
                }
                if *structurally_valid && !ro.is_ok() {
                    res.violate(format!("{}/recover-only", sub), format!("RecoverOnly failed on a structurally valid proof: {}", ro.describe()));
                }
                // keyed: wrong seed => a value different from the true mask, in every component; right seed => the mask
                if pname == "valid" {
                    for (mode, o) in [("RecoverAndVerify", &rv), ("RecoverOnly", &ro)] {
                        if let Some(Ok(m)) = &o.result {
                            let got = m.first().cloned().flatten();
                            match (seed, got) {
                                (None, None) => {},
                                (None, Some(_)) => res.violate(format!("{}/{}", sub, mode), "a mask was returned without a seed"),
                                (Some(_), None) => res.violate(format!("{}/{}", sub, mode), "no mask returned although the statement carries a seed"),
                                (Some(t), Some(mask)) => {
                                    if *t == s {
                                        if mask != truth {
                                            res.violate(format!("{}/{}", sub, mode), "the prover's seed does not recover the true mask");
                                        }
                                    } else {
                                        *res.outcome_counter("wrong-seed-checked") += 1;
                                        let same: Vec<usize> = (0..truth.len()).filter(|k| mask.get(*k) == truth.get(*k)).collect();
                                        if !same.is_empty() {
                                            res.violate(
                                                format!("{}/{}", sub, mode),
                                                format!("a different seed ({}) recovers true mask components {:?}", sname, same),
                                            );
                                        }
                                    }
                                },
                            }
                        }
                    }
                }
            }
            let first = verdicts[0].1;
            if verdicts.iter().any(|(_, v)| *v != first) {
                res.violate(format!("{}/seed-independence", pname), format!("verdict depends on the seed: {:?}", verdicts));
            }
        }
        res.sample = Some(json!({"cfg": cfg.key(), "proofs": proofs.len(), "seeds": seeds.len()}));
        res
    })
}

/// Small batches: RecoverOnly returns the same masks as RecoverAndVerify, whatever precedes a seeded member
fn batch_consistency_case<P: G>(d: usize) -> Box<dyn Case> {
    case(format!("{}/d={}/batch-consistency", P::NAME, d), move |_v| {
        fg::clear_intern();
        let mut res = CaseResult::new("explored");
        let kinds = ["seeded", "unseeded", "aggregated", "seeded-capacity2"];
        let mk = |kind: &str, pos: usize| {
            let cfg = match kind {
                "aggregated" => Cfg::new(4, 2, 2, d),
                "seeded-capacity2" => Cfg::new(4, 1, 2, d),
                _ => Cfg::new(4, 1, 1, d),
            };
            let mut wit = Wit::default_for(&cfg);
            for k in 0..d {
                wit.blindings[0][k] = blinding(800 + pos, k);
            }
            if kind.starts_with("seeded") {
                wit.seed = Some(seed_scalar(60 + pos as u64));
            }
            let built = build_cached::<P>(&cfg, &wit).honest();
            let ctx = contexts()[pos % 6];
            let proof = lib_prove_honest(&built, &ctx, &mut HRng::chacha(70 + pos as u64));
            (built.statement.clone(), proof, ctx)
        };
        for a in 0..kinds.len() {
            for b in 0..kinds.len() {
                for c in [None, Some(0usize)] {
                    res.transitions += 1;
                    let mut seq = vec![a, b];
                    if let Some(x) = c {
                        seq.push(x);
                    }
                    let members: Vec<_> = seq.iter().enumerate().map(|(pos, k)| mk(kinds[*k], pos)).collect();
                    let sts: Vec<_> = members.iter().map(|m| m.0.clone()).collect();
                    let proofs: Vec<_> = members.iter().map(|m| P::proof_clone(&m.1)).collect();
                    let run = |mode| {
                        let mut ts: Vec<merlin::Transcript> = members.iter().map(|m| m.2.transcript()).collect();
                        verify_observed(&sts, &proofs, &mut ts, mode)
                    };
                    let rv = run(VerifyAction::RecoverAndVerify);
                    let ro = run(VerifyAction::RecoverOnly);
                    let vo = run(VerifyAction::VerifyOnly);
                    res.executions += 3;
                    res.validated += 1;
                    let name: Vec<&str> = seq.iter().map(|k| kinds[*k]).collect();
                    *res.outcome_counter(&format!("batch-verdict:{}", vo.class())) += 1;
                    if !vo.is_ok() {
                        // an all-valid batch that plain verification rejects is C03's finding -- unless the seeds are what
                        // makes the difference: the same batch with every seed removed
                        let seedless: Vec<_> = sts
                            .iter()
                            .map(|st| {
                                let mut s2 = st.clone();
                                s2.seed_nonce = None;
                                s2
                            })
                            .collect();
                        let mut ts: Vec<merlin::Transcript> = members.iter().map(|m| m.2.transcript()).collect();
                        let twin = verify_observed(&seedless, &proofs, &mut ts, VerifyAction::VerifyOnly);
                        res.executions += 1;
                        if twin.is_ok() {
                            res.violate(
                                format!("{}/seed-independence", name.join(",")),
                                format!("the verdict of an all-valid batch depends on the presence of seeds: VerifyOnly {} with the seeds, {} without them", vo.describe(), twin.describe()),
                            );
                        } else {
                            *res.outcome_counter("valid-batch-not-accepted(skipped)") += 1;
                        }
                        continue;
                    }
                    match (&rv.result, &ro.result, &vo.result) {
                        (Some(Ok(x)), Some(Ok(y)), Some(Ok(_))) => {
                            if x != y {
                                let bad: Vec<usize> = (0..x.len()).filter(|i| x.get(*i) != y.get(*i)).collect();
                                res.violate(name.join(","), format!("RecoverOnly masks differ from RecoverAndVerify masks at positions {:?}", bad));
                            }
                        },
                        _ => res.violate(name.join(","), format!("all-valid batch: VerifyOnly {}, RecoverAndVerify {}, RecoverOnly {}", vo.describe(), rv.describe(), ro.describe())),
                    }
                }
            }
        }
        res
    })
}

/// The same output (commitment and proof) several times in one batch under different seeds: every member's mask is the mask
/// that member gets when verified alone (so it is keyed by ITS seed, whatever its neighbours carry)
fn duplicate_members_case<P: G>(cfg: Cfg) -> Box<dyn Case> {
    case(format!("{}/{}/same-output-different-seeds", P::NAME, cfg.key()), move |_v| {
        fg::clear_intern();
        let mut res = CaseResult::new("explored");
        let mut wit = Wit::default_for(&cfg);
        let s = seed_scalar(5);
        wit.seed = Some(s);
        let built = build_cached::<P>(&cfg, &wit).honest();
        let proof = lib_prove_honest(&built, &CTX_A, &mut HRng::chacha(61));
        let seeds: Vec<(&str, Option<Scalar>)> = vec![("prover", Some(s)), ("wrong1", Some(seed_scalar(98))), ("wrong2", Some(Scalar::ZERO)), ("none", None)];
        let alone: Vec<Vec<Observed>> = seeds
            .iter()
            .map(|(_, seed)| {
                let st = restate(&built, built.commitments.clone(), wit.promises.clone(), *seed).unwrap();
                [VerifyAction::RecoverAndVerify, VerifyAction::RecoverOnly].map(|mode| verify_observed_one(&st, &proof, &CTX_A, mode)).into_iter().collect()
            })
            .collect();
        if !alone.iter().all(|v| v.iter().all(|o| o.is_ok())) {
            res.outcome = "member-not-accepted-alone(skipped)".into();
            return res;
        }
        let mut seqs: Vec<Vec<usize>> = Vec::new();
        for a in 0..seeds.len() {
            for b in 0..seeds.len() {
                seqs.push(vec![a, b]);
                if a != b {
                    seqs.push(vec![a, b, a]);
                }
            }
        }
        for seq in seqs {
            res.transitions += 1;
            let sts: Vec<_> = seq.iter().map(|k| restate(&built, built.commitments.clone(), wit.promises.clone(), seeds[*k].1).unwrap()).collect();
            let proofs: Vec<_> = seq.iter().map(|_| P::proof_clone(&proof)).collect();
            let name: Vec<&str> = seq.iter().map(|k| seeds[*k].0).collect();
            for (mi, mode) in [VerifyAction::RecoverAndVerify, VerifyAction::RecoverOnly].into_iter().enumerate() {
                let mut ts: Vec<merlin::Transcript> = seq.iter().map(|_| CTX_A.transcript()).collect();
                let obs = verify_observed(&sts, &proofs, &mut ts, mode);
                res.executions += 1;
                res.validated += 1;
                match &obs.result {
                    Some(Ok(masks)) => {
                        for (i, k) in seq.iter().enumerate() {
                            let want = match &alone[*k][mi].result {
                                Some(Ok(m)) => m[0].clone(),
                                _ => unreachable!(),
                            };
                            *res.outcome_counter("in-batch-mask-compared-with-alone") += 1;
                            if masks.get(i) != Some(&want) {
                                res.violate(
                                    format!("[{}]/{}", name.join(","), mode_name(mode)),
                                    format!("member {} (seed {}) gets a mask in the batch that differs from the mask it gets alone", i, seeds[*k].0),
                                );
                            }
                        }
                    },
                    _ => res.violate(
                        format!("[{}]/{}", name.join(","), mode_name(mode)),
                        format!("a batch of members each accepted alone is not accepted: {}", obs.describe()),
                    ),
                }
            }
        }
        res
    })
}

/// Many wrong seeds against one output, judged through the mask type's OWN equality as well as through its components (the
/// recovered object a wallet compares): 2048 seeds, none of them yields an object equal to the true mask
fn wrong_seed_sweep_case<P: G>(cfg: Cfg) -> Box<dyn Case> {
    case(format!("{}/{}/wrong-seed-sweep", P::NAME, cfg.key()), move |_v| {
        use tari_bulletproofs_plus::extended_mask::ExtendedMask;
        fg::clear_intern();
        let mut res = CaseResult::new("explored");
        let mut wit = Wit::default_for(&cfg);
        let s = seed_scalar(5);
        wit.seed = Some(s);
        let built = build_cached::<P>(&cfg, &wit).honest();
        let proof = lib_prove_honest(&built, &CTX_A, &mut HRng::chacha(61));
        let truth = match ExtendedMask::assign(crate::api::ext(cfg.d), wit.blindings[0].clone()) {
            Ok(m) => m,
            Err(_) => return res,
        };
        for i in 0..2048u64 {
            let wrong = seed_scalar(100_000 + i);
            let st = restate(&built, built.commitments.clone(), wit.promises.clone(), Some(wrong)).unwrap();
            let mut ts = vec![CTX_A.transcript()];
            let r = catch(|| P::verify(&mut ts, std::slice::from_ref(&st), std::slice::from_ref(&proof), VerifyAction::RecoverOnly));
            res.executions += 1;
            res.transitions += 1;
            match r {
                Ok(Ok(masks)) => match masks.into_iter().next().flatten() {
                    Some(m) => {
                        res.validated += 1;
                        *res.outcome_counter("wrong-seed-checked") += 1;
                        if m == truth || m.blindings().ok() == truth.blindings().ok() {
                            res.violate(format!("wrong-seed#{}", i), "a wrong seed yields a mask object that compares equal to the true mask");
                        }
                    },
                    None => res.violate(format!("wrong-seed#{}", i), "no mask returned for a seeded statement"),
                },
                other => res.violate(format!("wrong-seed#{}", i), format!("RecoverOnly with a wrong seed failed: {:?}", other.map(|r| r.map(|_| ()).map_err(|e| crate::api::err_name(&e))))),
            }
        }
        res
    })
}

/// A batch beyond the chunk limit whose first chunk carries no seed: both recovering modes must agree on every mask
fn long_consistency_case<P: G>() -> Box<dyn Case> {
    long_consistency_case_layout::<P>(258, 256)
}

/// `len` members, those at positions >= `seeded_from` carry a seed (0: all of them -- exactly 256 seeded members is the point at
/// which any narrow counter of seeded statements wraps)
fn long_consistency_case_layout<P: G>(len: usize, seeded_from: usize) -> Box<dyn Case> {
    case(format!("{}/long-batch-consistency{}", P::NAME, if (len, seeded_from) == (258, 256) { String::new() } else { format!("/len={},seeded-from={}", len, seeded_from) }), move |_v| {
        fg::clear_intern();
        let mut res = CaseResult::new("explored");
        let cfg = Cfg::new(2, 1, 1, 1);
        let mut sts = Vec::new();
        let mut proofs = Vec::new();
        let mut ctxs = Vec::new();
        let mut expect: Vec<Option<Vec<Scalar>>> = Vec::new();
        for pos in 0..len {
            let mut wit = Wit::default_for(&cfg);
            wit.values[0] = (pos % 4) as u64;
            wit.blindings[0][0] = blinding(6000 + pos, 0);
            if pos >= seeded_from {
                wit.seed = Some(seed_scalar(pos as u64 + 1));
            }
            let built = build_cached::<P>(&cfg, &wit).honest();
            let ctx = contexts()[pos % 6];
            proofs.push(lib_prove_honest(&built, &ctx, &mut HRng::chacha(pos as u64)));
            sts.push(built.statement.clone());
            ctxs.push(ctx);
            expect.push(wit.seed.map(|_| wit.blindings[0].clone()));
        }
        let run = |mode| {
            let mut ts: Vec<merlin::Transcript> = ctxs.iter().map(|c| c.transcript()).collect();
            verify_observed(&sts, &proofs, &mut ts, mode)
        };
        let rv = run(VerifyAction::RecoverAndVerify);
        let ro = run(VerifyAction::RecoverOnly);
        res.executions += 2;
        res.validated += 1;
        *res.outcome_counter(&format!("batch-verdict:{}", rv.class())) += 1;
        match (&rv.result, &ro.result) {
            (Some(Ok(a)), Some(Ok(b))) => {
                if a != b {
                    let bad: Vec<usize> = (0..len).filter(|i| a.get(*i) != b.get(*i)).take(6).collect();
                    res.violate("masks", format!("RecoverOnly and RecoverAndVerify disagree on the masks of an accepted {}-member batch at positions {:?}", len, bad));
                }
                if *b != expect {
                    res.violate("recover-only", "RecoverOnly does not return the members' masks");
                }
            },
            _ => res.violate("verdict", format!("all-valid batch: RecoverAndVerify {}, RecoverOnly {}", rv.describe(), ro.describe())),
        }
        res
    })
}

pub fn run(rep: &mut Report) {
    rep.rule = "aggregation-1 configurations of the lattice x proofs {valid, one invalid mutant per component class (thorough: full menu)} x \
                statement seed in {none, prover's, +1, 0, 1, -1, negated, single-byte flips (bytes 0,15,30,31; all 32 at n=8 / thorough), unrelated} x 3 modes; \
                oracle: verdict(VerifyOnly) == verdict(RecoverAndVerify), identical for every seed; wrong seed => Ok and every mask \
                component differs from the truth; RecoverOnly Ok on structurally valid proofs and equal to RecoverAndVerify's masks; every batch of 2-3 members over \
                {seeded, unseeded, aggregated, seeded with spare capacity}: RecoverOnly masks == RecoverAndVerify masks; the same output 2-3 times \
                in one batch under seeds {prover's, two wrong ones, none} in every order: each member's mask == the mask it gets alone"
        .into();
    let tier = rep.tier;
    let mut cases: Vec<Box<dyn Case>> = Vec::new();
    // (bit length 1 included: its proofs have no folding round and no wire form the decoder accepts -- C15's known finding --
    // so only the prover's own proof object is judged there)
    for cfg in lattice(tier.thorough()).into_iter().filter(|c| c.m == 1) {
        cases.push(keyed_case::<F>(cfg, tier));
        cases.push(keyed_case::<RistrettoPoint>(cfg, tier));
        if tier.thorough() || cfg.n <= 8 {
            cases.push(keyed_case_variant::<F>(cfg, tier, true));
            cases.push(keyed_case_variant::<RistrettoPoint>(cfg, tier, true));
        }
    }
    for d in [1usize, 2] {
        cases.push(batch_consistency_case::<F>(d));
        cases.push(batch_consistency_case::<RistrettoPoint>(d));
    }
    for cfg in [Cfg::new(2, 1, 1, 1), Cfg::new(8, 1, 2, 2), Cfg::new(32, 1, 1, 3), Cfg::new(64, 1, 1, 6)] {
        cases.push(duplicate_members_case::<F>(cfg));
        cases.push(duplicate_members_case::<RistrettoPoint>(cfg));
    }
    for cfg in [Cfg::new(2, 1, 1, 1), Cfg::new(2, 1, 1, 3)] {
        cases.push(wrong_seed_sweep_case::<F>(cfg));
        cases.push(wrong_seed_sweep_case::<RistrettoPoint>(cfg));
    }
    cases.push(long_consistency_case::<F>());
    cases.push(long_consistency_case::<RistrettoPoint>());
    // exactly 256 and 257 seeded members (all of them seeded)
    cases.push(long_consistency_case_layout::<F>(256, 0));
    cases.push(long_consistency_case_layout::<RistrettoPoint>(256, 0));
    cases.push(long_consistency_case_layout::<RistrettoPoint>(257, 0));
    rep.explore("C10", cases);
    rep.expect_sub_outcome("verdict:Ok");
    rep.expect_sub_outcome("verdict:Err:VerificationFailed");
    rep.expect_sub_outcome("wrong-seed-checked");
}
