//! C14 Prover randomness is hedged against failure of the external RNG (DESIGN.md 3, C14)
//!
//! Fault models for the external RNG x pairs of runs that differ in exactly one input. The nonces drawn from
//! randomness are observed where they are produced: the output of the transcript RNG (merlin trace).

use std::collections::BTreeSet;

use curve25519_dalek::scalar::Scalar;
use serde_json::json;
use tari_bulletproofs_plus::generators::pedersen_gens::PedersenGens;

use crate::{
    api::{f_pc_gens_from, HRng, G},
    common::*,
    engine::{case, Case, CaseResult, Report},
    fg::{self, F},
};

pub const FAULTS: [&str; 4] = ["zero", "const5a", "period2", "replay"];

fn fault_rng(name: &str) -> HRng {
    match name {
        // replay: the very same stream a healthy generator produced on the previous run
        "replay" => HRng::chacha(0x5EED),
        other => HRng::from_model(other),
    }
}

struct RunOut {
    rng_scalars: Vec<Scalar>,
    bytes: Vec<u8>,
    /// structural findings on the transcript-RNG trace (see `rng_structure`)
    structure: Vec<String>,
}

/// Every transcript RNG the prover draws from must be (1) built from the transcript after the latest absorbed message,
/// (2) rekeyed with the complete serialised witness (every value and every blinding component), (3) finalised with
/// external randomness -- before the first draw. Observed on the merlin trace; label-agnostic.
fn rng_structure(trace: &[merlin::observe::Event], wit: &Wit) -> Vec<String> {
    use merlin::observe::Op;
    let mut out = Vec::new();
    let mut needles: Vec<(String, Vec<u8>)> = Vec::new();
    for (j, v) in wit.values.iter().enumerate() {
        needles.push((format!("value[{}]", j), v.to_le_bytes().to_vec()));
        for (k, r) in wit.blindings[j].iter().enumerate() {
            needles.push((format!("blinding[{}][{}]", j, k), r.as_bytes().to_vec()));
        }
    }
    // state of the current RNG
    let mut built = false;
    let mut keyed: Vec<u8> = Vec::new();
    let mut finalized = false;
    let mut appended_since_build = false;
    let mut fills = 0usize;
    for e in trace {
        match &e.op {
            Op::BuildRng => {
                built = true;
                keyed.clear();
                finalized = false;
                appended_since_build = false;
            },
            Op::Rekey { data, .. } => keyed.extend_from_slice(data),
            Op::Finalize { .. } => finalized = true,
            Op::Append { .. } => appended_since_build = true,
            Op::RngFill { out: o } if o.len() == 64 => {
                fills += 1;
                if !built || !finalized {
                    out.push(format!("nonce draw #{} comes from an RNG that was not built / finalised with external randomness", fills));
                }
                if appended_since_build {
                    out.push(format!("nonce draw #{} comes from an RNG built before the latest message was absorbed into the transcript", fills));
                }
                for (name, n) in &needles {
                    if !keyed.windows(n.len()).any(|w| w == &n[..]) {
                        out.push(format!("nonce draw #{} comes from an RNG that was not keyed with witness datum {}", fills, name));
                        break;
                    }
                }
            },
            _ => {},
        }
    }
    out.sort();
    out.dedup();
    out
}

fn run_prover(cfg: &Cfg, wit: &Wit, ctx: &Ctx, pc: &PedersenGens<F>, fault: &str) -> Result<RunOut, String> {
    run_prover_edit(cfg, wit, None, ctx, pc, fault)
}

/// `first`: the witness object is first initialised (and used once) for the opening `first`, then its public `openings`
/// field is overwritten in place with `wit`'s openings before the observed run
fn run_prover_edit(cfg: &Cfg, wit: &Wit, first: Option<&Wit>, ctx: &Ctx, pc: &PedersenGens<F>, fault: &str) -> Result<RunOut, String> {
    let mut built = build_with_pc::<F>(cfg, wit, pc.clone()).map_err(|e| crate::api::err_name(&e))?;
    if let Some(w0) = first {
        let mut witness = witness_for(w0).map_err(|e| crate::api::err_name(&e))?;
        let st0 = build_with_pc::<F>(cfg, w0, pc.clone()).map_err(|e| crate::api::err_name(&e))?;
        let mut t = ctx.transcript();
        let _ = catch(|| F::prove(&mut t, &st0.statement, &witness, &mut fault_rng(fault)));
        let fresh = witness_for(wit).map_err(|e| crate::api::err_name(&e))?;
        for (slot, o) in witness.openings.iter_mut().zip(fresh.openings.iter()) {
            *slot = o.clone();
        }
        built.witness = witness;
    }
    merlin::observe::start();
    let r = catch(|| lib_prove(&built, ctx, &mut fault_rng(fault)));
    let trace = merlin::observe::take();
    match r {
        Ok(Ok(p)) => Ok(RunOut {
            rng_scalars: trace_rng_scalars(&trace),
            bytes: F::to_bytes(&p),
            structure: rng_structure(&trace, wit),
        }),
        Ok(Err(e)) => Err(crate::api::err_name(&e)),
        Err(p) => Err(format!("panic: {}", p)),
    }
}

/// The observed run comes right after a REFUSED proving attempt on the same thread (another witness for the same
/// configuration, with a promise above its value): what a refused call leaves behind must not reach the next proof
fn run_prover_after_refusal(cfg: &Cfg, wit: &Wit, ctx: &Ctx, pc: &PedersenGens<F>, fault: &str) -> Result<RunOut, String> {
    let mut stale = wit.clone();
    for j in 0..cfg.m {
        stale.values[j] = 0;
        for k in 0..cfg.d {
            stale.blindings[j][k] = blinding(900 + j, k);
        }
    }
    stale.promises[0] = Some(1);
    if let Ok(b0) = build_with_pc::<F>(cfg, &stale, pc.clone()) {
        let r = catch(|| lib_prove(&b0, ctx, &mut fault_rng(fault)));
        if matches!(r, Ok(Ok(_))) {
            return Err("HARNESS: the attempt that should be refused (promise above value) produced a proof".into());
        }
    }
    run_prover(cfg, wit, ctx, pc, fault)
}

/// degenerate commitment generators: `merge` = (a, b) makes G_b = G_a; `h_is_g0` makes H = G_0
fn degenerate_pc(d: usize, merge: Option<(usize, usize)>, h_is_g0: bool) -> PedersenGens<F> {
    let mut g: Vec<F> = (0..d).map(|k| fg::basis(&format!("G{}", k))).collect();
    if let Some((a, b)) = merge {
        g[b] = g[a].clone();
    }
    let h = if h_is_g0 { g[0].clone() } else { fg::basis("H") };
    f_pc_gens_from(h, g)
}

struct Pair {
    name: String,
    a: (Cfg, Wit, Ctx, PedersenGens<F>),
    b: (Cfg, Wit, Ctx, PedersenGens<F>),
    /// the two runs have the same public statement (same commitment): the witness alone differs
    same_public: bool,
}

fn pairs(cfg: &Cfg, seeded: bool) -> Vec<Pair> {
    let mut base = Wit::default_for(cfg);
    for j in 0..cfg.m {
        if base.values[j] >= cfg.max_value() {
            base.values[j] = cfg.max_value() - 1;
        }
        if base.values[j] == 0 && cfg.n > 1 {
            base.values[j] = 1;
        }
    }
    if seeded {
        base.seed = Some(seed_scalar(9));
    }
    let std_pc = degenerate_pc(cfg.d, None, false);
    let mut out = Vec::new();
    // witness value, same commitment (H = G_0): (v, r_0) vs (v+1, r_0-1)
    for j in [0, cfg.m - 1] {
        if base.values[j] < cfg.max_value() {
            let pc = degenerate_pc(cfg.d, None, true);
            let mut w2 = base.clone();
            w2.values[j] += 1;
            w2.blindings[j][0] -= Scalar::ONE;
            out.push(Pair {
                name: format!("witness-value[{}](same commitment)", j),
                a: (*cfg, base.clone(), CTX_A, pc.clone()),
                b: (*cfg, w2, CTX_A, pc),
                same_public: true,
            });
        }
        if cfg.m == 1 {
            break;
        }
    }
    // witness blinding, same commitment (G_b = G_a): (r_a, r_b) vs (r_a+1, r_b-1), every pair of components
    for a in 0..cfg.d {
        for b in (a + 1)..cfg.d {
            let pc = degenerate_pc(cfg.d, Some((a, b)), false);
            let mut w2 = base.clone();
            w2.blindings[0][a] += Scalar::ONE;
            w2.blindings[0][b] -= Scalar::ONE;
            out.push(Pair {
                name: format!("witness-blinding[{},{}](same commitment)", a, b),
                a: (*cfg, base.clone(), CTX_A, pc.clone()),
                b: (*cfg, w2, CTX_A, pc),
                same_public: true,
            });
        }
    }
    // transcript context
    for c2 in [contexts()[1], contexts()[3]] {
        out.push(Pair {
            name: format!("context {}", c2.key()),
            a: (*cfg, base.clone(), CTX_A, std_pc.clone()),
            b: (*cfg, base.clone(), c2, std_pc.clone()),
            same_public: false,
        });
    }
    // one commitment (its blinding changes with it)
    {
        let mut w2 = base.clone();
        w2.blindings[cfg.m - 1][cfg.d - 1] += Scalar::ONE;
        out.push(Pair {
            name: "one commitment".into(),
            a: (*cfg, base.clone(), CTX_A, std_pc.clone()),
            b: (*cfg, w2, CTX_A, std_pc.clone()),
            same_public: false,
        });
    }
    // one promise
    if base.values[0] >= 1 {
        let mut w2 = base.clone();
        w2.promises[0] = Some(1);
        out.push(Pair {
            name: "one promise".into(),
            a: (*cfg, base.clone(), CTX_A, std_pc.clone()),
            b: (*cfg, w2, CTX_A, std_pc.clone()),
            same_public: false,
        });
    }
    // the same promise at another position of the aggregate (a statement is a VECTOR of promises: where one sits matters)
    if cfg.m >= 2 && base.values[0] >= 1 && base.values[1] >= 1 {
        let mut wa = base.clone();
        wa.promises[0] = Some(1);
        wa.promises[1] = None;
        let mut wb = base.clone();
        wb.promises[0] = None;
        wb.promises[1] = Some(1);
        out.push(Pair {
            name: "promise moved to another position".into(),
            a: (*cfg, wa, CTX_A, std_pc.clone()),
            b: (*cfg, wb, CTX_A, std_pc.clone()),
            same_public: false,
        });
    }
    // bit length
    if cfg.n < 64 {
        let c2 = Cfg::new(cfg.n * 2, cfg.m, cfg.c, cfg.d);
        out.push(Pair {
            name: "bit length".into(),
            a: (*cfg, base.clone(), CTX_A, std_pc.clone()),
            b: (c2, base.clone(), CTX_A, std_pc.clone()),
            same_public: false,
        });
    }
    // a commitment generator
    {
        let mut g: Vec<F> = (0..cfg.d).map(|k| fg::basis(&format!("G{}", k))).collect();
        g[cfg.d - 1] = fg::basis("G-other");
        out.push(Pair {
            name: "one blinding generator".into(),
            a: (*cfg, base.clone(), CTX_A, std_pc.clone()),
            b: (*cfg, base.clone(), CTX_A, f_pc_gens_from(fg::basis("H"), g.clone())),
            same_public: false,
        });
        // ... with a zero blinding factor on that generator, so that the commitments (and the witnesses) of the two runs are
        // equal and the generator itself is the ONLY public input that differs
        let mut wz = base.clone();
        for j in 0..cfg.m {
            wz.blindings[j][cfg.d - 1] = Scalar::ZERO;
        }
        if cfg.d >= 2 || wz.values.iter().any(|v| *v != 0) {
            out.push(Pair {
                name: "one blinding generator (zero factor on it: equal commitments)".into(),
                a: (*cfg, wz.clone(), CTX_A, std_pc.clone()),
                b: (*cfg, wz, CTX_A, f_pc_gens_from(fg::basis("H"), g)),
                same_public: false,
            });
        }
    }
    out
}

fn hedge_case(cfg: Cfg, seeded: bool, fault: &'static str) -> Box<dyn Case> {
    case(format!("{}/seeded={}/fault={}", cfg.key(), seeded, fault), move |_v| {
        fg::clear_intern();
        let mut res = CaseResult::new("explored");
        for pair in pairs(&cfg, seeded) {
            res.transitions += 1;
            let ra = run_prover(&pair.a.0, &pair.a.1, &pair.a.2, &pair.a.3, fault);
            // same-commitment pairs: the second run reuses the first run's witness object, edited in place
            let rb = if pair.same_public {
                run_prover_edit(&pair.b.0, &pair.b.1, Some(&pair.a.1), &pair.b.2, &pair.b.3, fault)
            } else {
                run_prover(&pair.b.0, &pair.b.1, &pair.b.2, &pair.b.3, fault)
            };
            let ra2 = run_prover(&pair.a.0, &pair.a.1, &pair.a.2, &pair.a.3, fault);
            res.executions += 3;
            let (ra, rb, ra2) = match (ra, rb, ra2) {
                (Ok(a), Ok(b), Ok(c)) => (a, b, c),
                (a, b, _) => {
                    // "for whatever random-number generator the prover is handed" is C01's clause
                    let _ = (a, b);
                    *res.outcome_counter("prover-failed(skipped)") += 1;
                    continue;
                },
            };
            // every RNG the nonces come from is keyed with the whole witness and built from the current transcript
            res.validated += 1;
            for (which, r) in [("first", &ra), ("second", &rb)] {
                if let Some(f) = r.structure.first() {
                    res.violate(format!("{}/rng-structure/{}", pair.name, which), format!("{} ({} findings)", f, r.structure.len()));
                }
            }
            // identical runs are reproducible
            res.validated += 1;
            if ra.bytes != ra2.bytes {
                res.violate(format!("{}/reproducible", pair.name), "two identical runs under the same RNG fault gave different proofs");
            }
            // ... also right after a refused attempt on the same thread
            match run_prover_after_refusal(&pair.a.0, &pair.a.1, &pair.a.2, &pair.a.3, fault) {
                Ok(rc) => {
                    res.executions += 1;
                    res.validated += 1;
                    *res.outcome_counter("runs-after-a-refused-attempt") += 1;
                    if let Some(f) = rc.structure.first() {
                        res.violate(format!("{}/rng-structure/after-refused-attempt", pair.name), format!("{} ({} findings)", f, rc.structure.len()));
                    }
                    if rc.bytes != ra.bytes {
                        res.violate(format!("{}/reproducible/after-refused-attempt", pair.name), "the same run right after a refused proving attempt on this thread gave a different proof");
                    }
                },
                Err(e) if e.starts_with("HARNESS") => res.machinery_error(e),
                Err(_) => *res.outcome_counter("prover-failed(skipped)") += 1,
            }
            // the two final masking scalars always come from the transcript RNG (with or without a seed): a run in which
            // the transcript RNG handed out nothing means they came from somewhere else
            if ra.rng_scalars.len() < 2 || rb.rng_scalars.len() < 2 {
                res.violate(
                    format!("{}/final-masks-source", pair.name),
                    format!(
                        "the transcript RNG handed out {} scalar(s) during a {} prove: the two final masking scalars are not drawn from the witness- and transcript-keyed RNG",
                        ra.rng_scalars.len().min(rb.rng_scalars.len()),
                        if seeded { "seeded" } else { "unseeded" }
                    ),
                );
                continue;
            }
            // all-pairs: the two runs share no RNG-derived nonce
            let set_a: BTreeSet<[u8; 32]> = ra.rng_scalars.iter().map(|s| s.to_bytes()).collect();
            let shared = rb.rng_scalars.iter().filter(|s| set_a.contains(&s.to_bytes())).count();
            res.validated += 1;
            *res.outcome_counter(if pair.same_public { "same-commitment-pairs" } else { "public-input-pairs" }) += 1;
            if shared > 0 {
                res.violate(
                    pair.name.clone(),
                    format!(
                        "under RNG fault '{}' two runs that differ only in {} share {} of {} RNG-derived nonces{}",
                        fault,
                        pair.name,
                        shared,
                        rb.rng_scalars.len(),
                        if pair.same_public { " (nonces are a function of public data alone)" } else { "" }
                    ),
                );
            }
            // within a run the nonces are pairwise distinct and nonzero even though the RNG is stuck
            if set_a.len() != ra.rng_scalars.len() || ra.rng_scalars.contains(&Scalar::ZERO) {
                res.violate(format!("{}/within", pair.name), format!("repeated or zero nonce within one run under RNG fault {}", fault));
            }
        }
        res.sample = Some(json!({"cfg": cfg.key(), "seeded": seeded, "fault": fault}));
        res
    })
}

/// Source of every RNG-derived nonce, on ordinary (non-degenerate) generators where each nonce is its own coordinate: under
/// every fault model each of alpha, dL, dR, d, eta (unseeded) and r, s (always) is an output of the witness-keyed transcript
/// RNG of that run. A nonce taken from anywhere else (the external generator directly, a constant) is not hedged.
fn source_case(cfg: Cfg, seeded: bool, fault: &'static str) -> Box<dyn Case> {
    case(format!("{}/seeded={}/fault={}/nonce-source", cfg.key(), seeded, fault), move |_v| {
        fg::clear_intern();
        let mut res = CaseResult::new("explored");
        let mut wit = Wit::default_for(&cfg);
        if seeded {
            wit.seed = Some(seed_scalar(33));
        }
        let run = match crate::props::c13::observed_prove(&cfg, &wit, &CTX_A, &mut fault_rng(fault), &mut res, "nonce-source") {
            Some(r) => r,
            None => {
                res.outcome = "prover-failed(skipped)".into();
                return res;
            },
        };
        let handed: std::collections::BTreeSet<[u8; 32]> = run.rng_scalars.iter().map(|x| x.to_bytes()).collect();
        for (name, v) in run.nonces.all() {
            let rng_derived = !seeded || name == "r" || name == "s";
            if !rng_derived {
                continue;
            }
            if !run.validated && (name == "r" || name == "s") {
                // not readable exactly when the proof is not the reference protocol's (C02 / C19)
                continue;
            }
            res.validated += 1;
            *res.outcome_counter("nonce-sources-checked") += 1;
            if !handed.contains(&v.to_bytes()) {
                res.violate(
                    format!("source/{}", name),
                    format!("under RNG fault '{}' nonce {} is not an output of the witness-keyed transcript RNG (it comes from somewhere that is not hedged)", fault, name),
                );
            }
        }
        res
    })
}

pub fn run(rep: &mut Report) {
    rep.rule = "RNG fault models {all-zero, constant 0x5a, period-2, replayed stream} x configurations (aggregation <= 2 of the lattice) x \
                seed {absent, present} x run pairs differing in exactly one of: witness value with the same commitment (H = G_0), witness \
                blinding components (a,b) with the same commitment (G_b = G_a, every pair), transcript context, one commitment, one \
                promise, the position of a promise, bit length, one blinding generator; oracle: the RNG-derived nonces of the two runs (transcript-RNG outputs) share \
                no element (all pairs), identical runs are bit-identical (also right after a refused proving attempt on the same thread), nonces within a run stay distinct, and on the merlin trace every \
                RNG a nonce is drawn from was built after the latest absorbed message, keyed with the complete witness serialisation \
                and finalised with external randomness; on ordinary generators (5 configurations x 4 fault models) every RNG-derived nonce read back from the proof \
                is an output of that transcript RNG"
        .into();
    rep.assume("the external RNG is only consulted through RngCore::fill_bytes (merlin's finalize); fault models replace that stream");
    let mut cases: Vec<Box<dyn Case>> = Vec::new();
    let mut cfgs: Vec<Cfg> = lattice(rep.tier.thorough()).into_iter().filter(|c| c.m <= 2).collect();
    // degrees 3 and 4 expose blinding components that are neither first nor last
    for n in [2usize, 8] {
        for d in [3usize, 4] {
            cfgs.push(Cfg::new(n, 1, 1, d));
            cfgs.push(Cfg::new(n, 2, 2, d));
        }
    }
    cfgs.sort();
    cfgs.dedup();
    for cfg in cfgs {
        for fault in FAULTS {
            cases.push(hedge_case(cfg, false, fault));
            if cfg.m == 1 {
                cases.push(hedge_case(cfg, true, fault));
            }
        }
    }
    for cfg in [Cfg::new(2, 1, 1, 1), Cfg::new(2, 1, 1, 3), Cfg::new(4, 2, 2, 2), Cfg::new(8, 1, 2, 6), Cfg::new(16, 2, 4, 4)] {
        for fault in FAULTS {
            cases.push(source_case(cfg, false, fault));
            if cfg.m == 1 {
                cases.push(source_case(cfg, true, fault));
            }
        }
    }
    rep.explore("C14", cases);
    rep.expect_sub_outcome("nonce-sources-checked");
    rep.expect_sub_outcome("same-commitment-pairs");
    rep.expect_sub_outcome("public-input-pairs");
}
