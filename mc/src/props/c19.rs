//! C19 Wire compatibility with the released protocol and a reference implementation (DESIGN.md 3, C19)

use curve25519_dalek::{ristretto::RistrettoPoint, scalar::Scalar};
use serde_json::{json, Value};
use sha3::{Digest, Sha3_256};
use tari_bulletproofs_plus::range_proof::VerifyAction;

use crate::{
    api::{HRng, G},
    common::*,
    engine::{case, Case, CaseResult, Report},
    fg,
    refbp::{self, Nonces},
};

type P = RistrettoPoint;

fn unhex(s: &str) -> Vec<u8> {
    (0..s.len() / 2).map(|i| u8::from_str_radix(&s[2 * i..2 * i + 2], 16).unwrap()).collect()
}

fn scalar_of(s: &str) -> Scalar {
    let mut b = [0u8; 32];
    b.copy_from_slice(&unhex(s));
    Scalar::from_bytes_mod_order(b)
}

fn leak(s: &str) -> &'static [u8] {
    Box::leak(s.as_bytes().to_vec().into_boxed_slice())
}

fn vector_case(i: usize, v: Value) -> Box<dyn Case> {
    let key = format!(
        "vector/{:03}/n={},m={},c={},d={},seed={},ctx={}",
        i,
        v["n"],
        v["m"],
        v["c"],
        v["d"],
        !v["seed"].is_null(),
        v["ctx_label"].as_str().unwrap_or("")
    );
    case(key, move |_v| {
        let mut res = CaseResult::new("compatible");
        let cfg = Cfg::new(v["n"].as_u64().unwrap() as usize, v["m"].as_u64().unwrap() as usize, v["c"].as_u64().unwrap() as usize, v["d"].as_u64().unwrap() as usize);
        let ctx = Ctx {
            label: leak(v["ctx_label"].as_str().unwrap()),
            msg: v["ctx_msg"].as_str().map(leak),
        };
        let wit = Wit {
            values: v["values"].as_array().unwrap().iter().map(|x| x.as_str().unwrap().parse().unwrap()).collect(),
            blindings: v["blindings"].as_array().unwrap().iter().map(|r| r.as_array().unwrap().iter().map(|s| scalar_of(s.as_str().unwrap())).collect()).collect(),
            promises: v["promises"].as_array().unwrap().iter().map(|p| p.as_str().map(|s| s.parse().unwrap())).collect(),
            seed: v["seed"].as_str().map(scalar_of),
        };
        let built = build_cached::<P>(&cfg, &wit).honest();
        // the commitments the release computed are the commitments this tree computes
        let recorded_c: Vec<Vec<u8>> = v["commitments"].as_array().unwrap().iter().map(|c| unhex(c.as_str().unwrap())).collect();
        let now_c: Vec<Vec<u8>> = built.commitments.iter().map(|c| c.g_compress().to_vec()).collect();
        res.validated += 1;
        if recorded_c != now_c {
            res.violate("commitments", "commitments computed from the recorded openings differ from the recorded commitments (commitment generators changed)");
        }
        let bytes = unhex(v["proof"].as_str().unwrap());
        let masks_expect: Option<Vec<Scalar>> = v["masks"].as_array().map(|a| a.iter().map(|s| scalar_of(s.as_str().unwrap())).collect());
        // reference model against the recorded release output (this is what arbitrates R)
        let rst = ref_statement_indep(&built.statement);
        match refbp::ref_decode_allow_zero_rounds(&bytes) {
            None => res.machinery_error("reference decoder cannot parse a recorded proof"),
            Some(rp) => {
                let mut t = ctx.transcript();
                let chk = refbp::ref_verify(&mut t, &rst, &rp);
                res.validated += 1;
                if !chk.verdict.accepts() {
                    res.machinery_error(format!("reference model rejects a proof recorded from the pinned release: {:?} (R is wrong, not the library)", chk.verdict));
                }
                if let (Some(seed), Some(ch), Some(expect)) = (wit.seed, chk.challenges.as_ref(), masks_expect.as_ref()) {
                    let m = refbp::ref_recover_mask(&rp, ch, cfg.big_n(), &seed);
                    if m != *expect {
                        res.machinery_error("reference mask recovery disagrees with the mask recorded from the pinned release");
                    }
                }
            },
        }
        // the library still verifies the recorded proof and yields the recorded mask
        if cfg.big_n() > 1 {
            match catch(|| P::from_bytes(&bytes)) {
                Ok(Ok(proof)) => {
                    let mode = if wit.seed.is_some() { VerifyAction::RecoverAndVerify } else { VerifyAction::VerifyOnly };
                    let obs = verify_observed_one(&built.statement, &proof, &ctx, mode);
                    res.executions += 1;
                    res.validated += 1;
                    match &obs.result {
                        Some(Ok(m)) => {
                            if m[0] != masks_expect {
                                res.outcome = "incompatible".into();
                                res.violate("mask", "the mask recovered from a recorded 0.4.0 proof differs from the recorded mask");
                            }
                        },
                        _ => {
                            res.outcome = "incompatible".into();
                            res.violate("verify", format!("a proof recorded from the 0.4.0 release no longer verifies: {}", obs.describe()));
                        },
                    }
                },
                other => res.violate("decode", format!("a proof recorded from the 0.4.0 release no longer decodes: {:?}", other.map(|r| r.map(|_| ()).map_err(|e| crate::api::err_name(&e))))),
            }
        } else {
            *res.outcome_counter("zero-round-vector(reference-only)") += 1;
        }
        res
    })
}

/// Two recorded proofs made under DIFFERENT transcript contexts, verified together (both orders): recorded proofs keep
/// verifying, and yielding their recorded masks, when submitted in one call
fn vector_pair_case(i: usize, a: Value, j: usize, b: Value) -> Box<dyn Case> {
    case(format!("vector-pair/{:03}+{:03}/n={},d={}", i, j, a["n"], a["d"]), move |_v| {
        let mut res = CaseResult::new("compatible");
        let mut sts = Vec::new();
        let mut proofs = Vec::new();
        let mut ctxs = Vec::new();
        let mut masks: Vec<Option<Vec<Scalar>>> = Vec::new();
        for v in [&a, &b] {
            let cfg = Cfg::new(v["n"].as_u64().unwrap() as usize, v["m"].as_u64().unwrap() as usize, v["c"].as_u64().unwrap() as usize, v["d"].as_u64().unwrap() as usize);
            let wit = Wit {
                values: v["values"].as_array().unwrap().iter().map(|x| x.as_str().unwrap().parse().unwrap()).collect(),
                blindings: v["blindings"].as_array().unwrap().iter().map(|r| r.as_array().unwrap().iter().map(|s| scalar_of(s.as_str().unwrap())).collect()).collect(),
                promises: v["promises"].as_array().unwrap().iter().map(|p| p.as_str().map(|s| s.parse().unwrap())).collect(),
                seed: v["seed"].as_str().map(scalar_of),
            };
            let built = build_cached::<P>(&cfg, &wit).honest();
            sts.push(built.statement.clone());
            match catch(|| P::from_bytes(&unhex(v["proof"].as_str().unwrap()))) {
                Ok(Ok(p)) => proofs.push(p),
                _ => {
                    res.outcome = "recorded-proof-does-not-decode(skipped)".into();
                    return res;
                },
            }
            ctxs.push(Ctx { label: leak(v["ctx_label"].as_str().unwrap()), msg: v["ctx_msg"].as_str().map(leak) });
            masks.push(v["masks"].as_array().map(|m| m.iter().map(|s| scalar_of(s.as_str().unwrap())).collect()));
        }
        for order in [[0usize, 1], [1, 0]] {
            let s2: Vec<_> = order.iter().map(|k| sts[*k].clone()).collect();
            let p2: Vec<_> = order.iter().map(|k| P::proof_clone(&proofs[*k])).collect();
            let want: Vec<Option<Vec<Scalar>>> = order.iter().map(|k| masks[*k].clone()).collect();
            let mut ts: Vec<merlin::Transcript> = order.iter().map(|k| ctxs[*k].transcript()).collect();
            let obs = verify_observed(&s2, &p2, &mut ts, VerifyAction::RecoverAndVerify);
            res.executions += 1;
            res.validated += 1;
            match &obs.result {
                Some(Ok(m)) => {
                    if *m != want {
                        res.outcome = "incompatible".into();
                        res.violate(format!("order={:?}/masks", order), "the masks recovered from two recorded 0.4.0 proofs verified together differ from the recorded masks");
                    }
                },
                _ => {
                    res.outcome = "incompatible".into();
                    res.violate(format!("order={:?}/verify", order), format!("two proofs recorded from the 0.4.0 release (made under different transcript contexts) no longer verify together: {}", obs.describe()));
                },
            }
        }
        res
    })
}

fn generators_case(g: Value) -> Box<dyn Case> {
    let n = g["n"].as_u64().unwrap() as usize;
    let c = g["c"].as_u64().unwrap() as usize;
    let digest = g["digest"].as_str().unwrap().to_string();
    case(format!("generators/n={},c={}", n, c), move |_v| {
        let mut res = CaseResult::new("compatible");
        let params = P::params(n, c, P::pc_gens(1)).unwrap();
        let mut h = Sha3_256::new();
        for p in P::gi_vec(&params) {
            h.update(p.g_compress());
        }
        for p in P::hi_vec(&params) {
            h.update(p.g_compress());
        }
        res.executions += 1;
        res.validated += 1;
        if fg::hex(&h.finalize()) != digest {
            res.outcome = "incompatible".into();
            res.violate("digest", format!("vector generators for ({}, {}) differ from the 0.4.0 release", n, c));
        }
        // and the reference derivation matches the release
        let (rg, rh) = refbp::ref_gens::<P>(n, c);
        let mut h2 = Sha3_256::new();
        for p in rg.iter().chain(rh.iter()) {
            h2.update(p.g_compress());
        }
        if fg::hex(&h2.finalize()) != digest {
            res.machinery_error("reference generator derivation disagrees with the pinned release");
        }
        res
    })
}

fn pedersen_case(h: String, g: Vec<String>) -> Box<dyn Case> {
    case("pedersen-generators", move |_v| {
        let mut res = CaseResult::new("compatible");
        for d in 1..=6usize {
            let pc = P::pc_gens(d);
            res.validated += 1;
            if fg::hex(&pc.h_base.g_compress()) != h || fg::hex(pc.h_base_compressed.as_bytes()) != h {
                res.violate(format!("H/d={}", d), "value generator differs from the 0.4.0 release");
            }
            for k in 0..d {
                if fg::hex(&pc.g_base_vec[k].g_compress()) != g[k] || fg::hex(pc.g_base_compressed_vec[k].as_bytes()) != g[k] {
                    res.outcome = "incompatible".into();
                    res.violate(format!("G{}/d={}", k, d), format!("blinding generator {} differs from the 0.4.0 release", k));
                }
                if fg::hex(&refbp::ref_masking_basepoint::<P>(k).g_compress()) != g[k] {
                    res.machinery_error("reference blinding-generator derivation disagrees with the pinned release");
                }
            }
        }
        res
    })
}

/// Fresh cross-verification in both directions
fn cross_case(cfg: Cfg, seeded: bool) -> Box<dyn Case> {
    cross_case_variant(cfg, seeded, "default")
}

/// witness variants: "identity" (value 0 and all-zero blinding factors at the last position: the commitment is the identity),
/// "top" (largest value everywhere, promise equal to it at the last position, half the range at the first),
/// "leading-zero-blinding" (blinding component 0 is zero at every position)
fn cross_case_variant(cfg: Cfg, seeded: bool, variant: &'static str) -> Box<dyn Case> {
    case(format!("cross/{}/seeded={}{}", cfg.key(), seeded, if variant == "default" { String::new() } else { format!("/witness={}", variant) }), move |_v| {
        let mut res = CaseResult::new("compatible");
        let mut wit = Wit::default_for(&cfg);
        wit.promises[cfg.m - 1] = Some(wit.values[cfg.m - 1] / 2);
        match variant {
            "identity" => {
                wit.values[cfg.m - 1] = 0;
                wit.promises[cfg.m - 1] = if cfg.m % 2 == 0 { Some(0) } else { None };
                for k in 0..cfg.d {
                    wit.blindings[cfg.m - 1][k] = Scalar::ZERO;
                }
            },
            "top" => {
                for j in 0..cfg.m {
                    wit.values[j] = cfg.max_value();
                    wit.promises[j] = None;
                }
                wit.promises[cfg.m - 1] = Some(cfg.max_value());
                wit.promises[0] = Some(cfg.max_value() / 2 + 1);
            },
            "leading-zero-blinding" => {
                for j in 0..cfg.m {
                    wit.blindings[j][0] = Scalar::ZERO;
                }
            },
            _ => {},
        }
        if seeded {
            wit.seed = Some(seed_scalar(31));
        }
        let ctx = contexts()[5];
        let built = build_cached::<P>(&cfg, &wit).honest();
        let rst = ref_statement_indep(&built.statement);
        // library prover -> reference verifier (+ reference mask recovery)
        let proof = lib_prove_honest(&built, &ctx, &mut HRng::chacha(12));
        let bytes = P::to_bytes(&proof);
        res.executions += 1;
        match refbp::ref_decode_allow_zero_rounds(&bytes) {
            None => res.violate("lib->ref/layout", "the library's encoding cannot be parsed field by field by the independent decoder"),
            Some(rp) => {
                let mut t = ctx.transcript();
                let chk = refbp::ref_verify(&mut t, &rst, &rp);
                res.validated += 1;
                if !chk.verdict.accepts() {
                    res.outcome = "incompatible".into();
                    res.violate("lib->ref/verify", format!("the library's proof is not accepted by the reference verifier: {:?}", chk.verdict));
                } else if let (Some(seed), Some(ch)) = (wit.seed, chk.challenges.as_ref()) {
                    if refbp::ref_recover_mask(&rp, ch, cfg.big_n(), &seed) != wit.blindings[0] {
                        res.violate("lib->ref/mask", "the reference recoverer does not recover the mask from the library's proof");
                    }
                }
            },
        }
        // reference prover -> library verifier and recoverer
        if cfg.rounds() >= 1 {
            let nonces = match wit.seed {
                Some(s) => Nonces::from_seed(&s, cfg.rounds(), cfg.d, wide_scalar("xr", 1, 0), wide_scalar("xs", 1, 0)),
                None => Nonces {
                    alpha: (0..cfg.d).map(|k| wide_scalar("xa", k as u64, 0)).collect(),
                    dl: (0..cfg.rounds()).map(|j| (0..cfg.d).map(|k| wide_scalar("xl", j as u64, k as u64)).collect()).collect(),
                    dr: (0..cfg.rounds()).map(|j| (0..cfg.d).map(|k| wide_scalar("xr", j as u64, k as u64)).collect()).collect(),
                    delta: (0..cfg.d).map(|k| wide_scalar("xd", k as u64, 0)).collect(),
                    eta: (0..cfg.d).map(|k| wide_scalar("xe", k as u64, 0)).collect(),
                    r: wide_scalar("xr", 1, 0),
                    s: wide_scalar("xs", 1, 0),
                },
            };
            let digits = refbp::honest_digits(cfg.n, &wit.values, &wit.promises).unwrap();
            let mut t = ctx.transcript();
            let out = refbp::ref_prove(&mut t, &rst, &digits, &wit.blindings, &nonces);
            let rbytes = refbp::ref_encode(&out.proof);
            match catch(|| P::from_bytes(&rbytes)) {
                Ok(Ok(p)) => {
                    let mode = if seeded { VerifyAction::RecoverAndVerify } else { VerifyAction::VerifyOnly };
                    let obs = verify_observed_one(&built.statement, &p, &ctx, mode);
                    res.executions += 1;
                    res.validated += 1;
                    match &obs.result {
                        Some(Ok(m)) => {
                            let expect = if seeded { Some(wit.blindings[0].clone()) } else { None };
                            if m[0] != expect {
                                res.violate("ref->lib/mask", "the library does not recover the mask from the reference prover's proof");
                            }
                        },
                        _ => {
                            res.outcome = "incompatible".into();
                            res.violate("ref->lib/verify", format!("the reference prover's proof is not accepted by the library: {}", obs.describe()));
                        },
                    }
                },
                other => res.violate("ref->lib/decode", format!("{:?}", other.map(|r| r.map(|_| ()).map_err(|e| crate::api::err_name(&e))))),
            }
        }
        res.sample = Some(json!({"cfg": cfg.key(), "seeded": seeded}));
        res
    })
}

pub fn run(rep: &mut Report) {
    rep.rule = "(1) /verif/vectors/v040.json recorded from the pinned 0.4.0 tree with pristine merlin: 241 proofs (quick lattice x seeded / \
                unseeded x two contexts, with promises; 31 corner vectors: identity commitments, upper-half values with promises in the upper half, \
                zero blinding factors in leading positions, seeds 0 / 1 / -1, in-between bit lengths / degrees / aggregation sizes) must still decode, verify and yield the recorded masks, alone and in pairs made under different contexts (both orders); commitments recomputed from \
                the recorded openings must match; SHA3-256 digests of all 42 (bits, capacity) generator sets and the 6 blinding generators \
                must match; the reference model must accept every recorded proof (this arbitrates R); (2) fresh cross-verification on the \
                lattice in both directions: library prover -> reference verifier / recoverer, reference prover -> library verifier / recoverer, \
                for the default witness and the variants {identity commitment, top of the range with promise == value, zero leading blinding factor}"
        .into();
    rep.assume("vectors were recorded once by /verif/vecgen from commit 6415632 (pinned snapshot) and are committed; they are data, not re-derived at run time");
    let text = match std::fs::read_to_string("/verif/vectors/v040.json") {
        Ok(t) => t,
        Err(e) => {
            rep.machinery.push(format!("cannot read recorded vectors: {}", e));
            return;
        },
    };
    let v: Value = serde_json::from_str(&text).expect("vectors parse");
    let mut cases: Vec<Box<dyn Case>> = Vec::new();
    for (i, p) in v["proofs"].as_array().unwrap().iter().enumerate() {
        cases.push(vector_case(i, p.clone()));
    }
    // pairs of recorded proofs with the same bit length and degree but different contexts (first of each kind)
    {
        let all = v["proofs"].as_array().unwrap();
        let mut seen = std::collections::BTreeSet::new();
        for (i, a) in all.iter().enumerate() {
            if a["ctx_label"].as_str() != Some("ctx-a") || a["n"].as_u64().unwrap() * a["m"].as_u64().unwrap() <= 1 {
                continue;
            }
            let key = (a["n"].as_u64().unwrap(), a["d"].as_u64().unwrap(), a["m"].as_u64().unwrap(), a["seed"].is_null());
            if !seen.insert(key) {
                continue;
            }
            if let Some((j, b)) = all.iter().enumerate().find(|(_, b)| {
                b["ctx_label"].as_str() == Some("ctx-b") && b["n"] == a["n"] && b["d"] == a["d"] && b["n"].as_u64().unwrap() * b["m"].as_u64().unwrap() > 1 && b["m"] != a["m"]
            }) {
                cases.push(vector_pair_case(i, a.clone(), j, b.clone()));
            }
        }
    }
    for g in v["generators"].as_array().unwrap() {
        let big = g["n"].as_u64().unwrap() * g["c"].as_u64().unwrap();
        if rep.tier.thorough() || big <= 512 {
            cases.push(generators_case(g.clone()));
        }
    }
    cases.push(pedersen_case(
        v["pedersen_h"].as_str().unwrap().to_string(),
        v["pedersen_g"].as_array().unwrap().iter().map(|x| x.as_str().unwrap().to_string()).collect(),
    ));
    for cfg in lattice(rep.tier.thorough()) {
        cases.push(cross_case(cfg, false));
        if cfg.m == 1 {
            cases.push(cross_case(cfg, true));
        }
        if rep.tier.thorough() || cfg.big_n() <= 128 {
            for variant in ["identity", "top", "leading-zero-blinding"] {
                if variant == "leading-zero-blinding" && cfg.d < 2 {
                    continue;
                }
                cases.push(cross_case_variant(cfg, cfg.m == 1, variant));
            }
        }
    }
    rep.explore("C19", cases);
    rep.expect_outcome("compatible");
}
