//! C09 Mask recovery returns the commitment's exact mask, position by position (DESIGN.md 3, C09)

use std::sync::Arc;

use curve25519_dalek::{ristretto::RistrettoPoint, scalar::Scalar};
use merlin::Transcript;
use serde_json::json;
use tari_bulletproofs_plus::{
    range_proof::{RangeProof, VerifyAction},
    range_statement::RangeStatement,
};

use crate::{
    api::{HRng, G},
    common::*,
    engine::{case, Case, CaseResult, Report, Tier},
    fg::{self, F},
    refbp,
};

pub fn seeds_alphabet() -> Vec<(String, Scalar)> {
    let mut hi = [0u8; 32];
    hi[31] = 0x0f;
    hi[0] = 1;
    vec![
        ("s0".into(), seed_scalar(0)),
        ("s1".into(), seed_scalar(1)),
        ("zero".into(), Scalar::ZERO),
        ("one".into(), Scalar::ONE),
        ("l-1".into(), -Scalar::ONE),
        ("top-byte".into(), Scalar::from_bytes_mod_order(hi)),
    ]
}

fn recover_case<P: G>(cfg: Cfg, name: String, wit: Wit, ctx: Ctx, rng: &'static str) -> Box<dyn Case> {
    case(format!("{}/{}/{}", P::NAME, cfg.key(), name), move |_v| {
        fg::clear_intern();
        let mut res = CaseResult::new("recovered");
        let built = build_cached::<P>(&cfg, &wit).honest();
        let proof = match lib_prove(&built, &ctx, &mut HRng::from_model(rng)) {
            Ok(p) => p,
            Err(_) => {
                // a refused valid witness is C01 / C06's finding; there is no mask to judge
                res.outcome = "prover-refused(skipped)".into();
                return res;
            },
        };
        res.executions += 1;
        let truth = wit.blindings[0].clone();
        // an honest proof that plain verification does not accept is C01's finding: only RecoverOnly can then be judged
        let plain_ok = verify_observed_one(&built.statement, &proof, &ctx, VerifyAction::VerifyOnly).is_ok();
        for mode in MODES {
            if !plain_ok && mode != VerifyAction::RecoverOnly {
                res.outcome = "honest-proof-not-accepted(noted)".into();
                continue;
            }
            let obs = verify_observed_one(&built.statement, &proof, &ctx, mode);
            res.executions += 1;
            res.validated += 1;
            let expect = if mode == VerifyAction::VerifyOnly { None } else { Some(truth.clone()) };
            match &obs.result {
                Some(Ok(m)) if m.len() == 1 => {
                    if m[0] != expect {
                        res.outcome = "wrong-mask".into();
                        let which: Vec<usize> = match (&m[0], &expect) {
                            (Some(a), Some(b)) => (0..b.len()).filter(|k| a.get(*k) != b.get(*k)).collect(),
                            _ => vec![],
                        };
                        res.violate(
                            mode_name(mode),
                            format!("recovered mask differs from the commitment's blinding vector (got {}, differing components {:?})", m[0].is_some(), which),
                        );
                    }
                },
                _ => res.violate(mode_name(mode), format!("verification with the prover's seed failed: {}", obs.describe())),
            }
        }
        // the same statement reached through the other ways a statement value comes to be: a clone, and clone_from over a
        // statement that had no seed / another seed (the verifier's copy of a statement is rarely the object the prover used)
        if plain_ok {
            let mut copies: Vec<(&str, RangeStatement<P>)> = vec![("clone", built.statement.clone())];
            for (nm, seed) in [("clone_from-over-unseeded", None), ("clone_from-over-other-seed", Some(seed_scalar(77)))] {
                if let Ok(mut dst) = restate(&built, built.commitments.clone(), wit.promises.clone(), seed) {
                    dst.clone_from(&built.statement);
                    copies.push((nm, dst));
                }
            }
            for (nm, st) in copies {
                for mode in [VerifyAction::RecoverOnly, VerifyAction::RecoverAndVerify] {
                    let obs = verify_observed_one(&st, &proof, &ctx, mode);
                    res.executions += 1;
                    res.validated += 1;
                    match &obs.result {
                        Some(Ok(m)) if m.len() == 1 && m[0] == Some(truth.clone()) => {},
                        _ => {
                            res.outcome = "wrong-mask".into();
                            res.violate(
                                format!("{}/{}", nm, mode_name(mode)),
                                format!("recovery through a {} of the seeded statement does not return the blinding vector: {}", nm, obs.describe()),
                            );
                        },
                    }
                }
            }
        }
        // reference recovery agrees
        if let Some(rp) = ref_proof_of(&proof) {
            let rst = ref_statement(&built.statement);
            let mut t = ctx.transcript();
            let ch = refbp::ref_challenges(&mut t, &rst, &rp);
            let rmask = refbp::ref_recover_mask(&rp, &ch, cfg.big_n(), &wit.seed.unwrap());
            res.validated += 1;
            if rmask != truth {
                res.binding_note("reference", "reference mask recovery does not return the blinding vector from the library's proof (C19)");
            }
        }
        res.sample = Some(json!({"cfg": cfg.key(), "case": name, "group": P::NAME}));
        res
    })
}

struct BMember<P: G> {
    statement: RangeStatement<P>,
    proof: RangeProof<P>,
    ctx: Ctx,
    mask: Option<Vec<Scalar>>,
}

const BKINDS: [&str; 4] = ["seedA", "unseeded", "aggregated", "seedB"];

struct BTemplates<P: G> {
    members: Vec<Vec<BMember<P>>>,
    intern: Arc<std::sync::Mutex<std::collections::HashMap<[u8; 32], F>>>,
}

fn batch_templates<P: G>(n: usize, d: usize, depth: usize) -> BTemplates<P> {
    fg::clear_intern();
    let mut members = Vec::new();
    for pos in 0..depth {
        let mut row = Vec::new();
        for kind in BKINDS {
            let cfg = if kind == "aggregated" { Cfg::new(n, 2, 2, d) } else { Cfg::new(n, 1, 1, d) };
            let wit = Wit {
                values: (0..cfg.m).map(|j| ((pos * 3 + j) as u64) & cfg.max_value()).collect(),
                blindings: (0..cfg.m).map(|j| (0..d).map(|k| blinding(2000 + 16 * pos + j, k)).collect()).collect(),
                promises: vec![None; cfg.m],
                seed: match kind {
                    "seedA" => Some(seed_scalar(11)),
                    "seedB" => Some(seed_scalar(12)),
                    _ => None,
                },
            };
            let ctx = contexts()[pos % 6];
            let built = build_cached::<P>(&cfg, &wit).honest();
            let proof = lib_prove_honest(&built, &ctx, &mut HRng::chacha(50 + pos as u64));
            row.push(BMember {
                statement: built.statement.clone(),
                proof,
                ctx,
                mask: wit.seed.map(|_| wit.blindings[0].clone()),
            });
        }
        members.push(row);
    }
    BTemplates {
        members,
        intern: fg::intern_handle(),
    }
}

fn batch_cases<P: G>(n: usize, d: usize, depth: usize) -> Vec<Box<dyn Case>> {
    let tpl = match honest_scope(|| batch_templates::<P>(n, d, depth)) {
        Some(t) => Arc::new(t),
        None => return Vec::new(),
    };
    let mut cases: Vec<Box<dyn Case>> = Vec::new();
    let mut frontier: Vec<Vec<usize>> = vec![vec![]];
    for _ in 0..depth {
        let mut next = Vec::new();
        for s in &frontier {
            for k in 0..BKINDS.len() {
                let mut t = s.clone();
                t.push(k);
                next.push(t);
            }
        }
        for seq in &next {
            let seq = seq.clone();
            let tpl = tpl.clone();
            let name: Vec<&str> = seq.iter().map(|k| BKINDS[*k]).collect();
            cases.push(case(format!("{}/n={},d={}/batch/{}", P::NAME, n, d, name.join(",")), move |_v| {
                fg::set_intern(tpl.intern.clone());
                let mut res = CaseResult::new("recovered");
                res.transitions = seq.len() as u64;
                let batch: Vec<&BMember<P>> = seq.iter().enumerate().map(|(p, k)| &tpl.members[p][*k]).collect();
                let sts: Vec<RangeStatement<P>> = batch.iter().map(|m| m.statement.clone()).collect();
                let proofs: Vec<RangeProof<P>> = batch.iter().map(|m| P::proof_clone(&m.proof)).collect();
                let plain_ok = {
                    let mut ts: Vec<Transcript> = batch.iter().map(|m| m.ctx.transcript()).collect();
                    verify_observed(&sts, &proofs, &mut ts, VerifyAction::VerifyOnly).is_ok()
                };
                for mode in MODES {
                    if !plain_ok && mode != VerifyAction::RecoverOnly {
                        // an all-valid batch that plain verification rejects is C03's finding
                        res.outcome = "valid-batch-not-accepted(noted)".into();
                        continue;
                    }
                    let mut ts: Vec<Transcript> = batch.iter().map(|m| m.ctx.transcript()).collect();
                    let obs = verify_observed(&sts, &proofs, &mut ts, mode);
                    res.executions += 1;
                    res.validated += 1;
                    match &obs.result {
                        Some(Ok(masks)) => {
                            let expect: Vec<Option<Vec<Scalar>>> =
                                batch.iter().map(|m| if mode == VerifyAction::VerifyOnly { None } else { m.mask.clone() }).collect();
                            if *masks != expect {
                                let bad: Vec<usize> = (0..expect.len()).filter(|i| masks.get(*i) != expect.get(*i)).collect();
                                res.outcome = "wrong-mask".into();
                                res.violate(mode_name(mode), format!("results at positions {:?} are not the masks of the corresponding members ({} results for {} members)", bad, masks.len(), expect.len()));
                            }
                        },
                        _ => res.violate(mode_name(mode), format!("all-valid batch failed: {}", obs.describe())),
                    }
                }
                res
            }));
        }
        frontier = next;
    }
    cases
}

/// Long batches beyond the chunk limit: the i-th result is the i-th member's mask
fn long_batch_case<P: G>(len: usize, d: usize) -> Box<dyn Case> {
    long_batch_case_layout::<P>(len, d, "mixed")
}

/// layout "mixed": seeded / unseeded / aggregated members throughout; "seedless-first-chunk": the first 256 members carry
/// no seed, the members after them do
fn long_batch_case_layout<P: G>(len: usize, d: usize, layout: &'static str) -> Box<dyn Case> {
    case(format!("{}/n=2,d={}/long-batch/{}/L={}", P::NAME, d, layout, len), move |_v| {
        fg::clear_intern();
        let mut res = CaseResult::new("recovered");
        let mut sts = Vec::new();
        let mut proofs = Vec::new();
        let mut ctxs = Vec::new();
        let mut expect: Vec<Option<Vec<Scalar>>> = Vec::new();
        for pos in 0..len {
            let kind = if layout == "seedless-first-chunk" {
                if pos >= 256 {
                    "seeded"
                } else if pos % 11 == 4 {
                    "aggregated"
                } else {
                    "unseeded"
                }
            } else if pos == 0 || pos == 1 || pos == 255 || pos == 256 || pos + 1 == len || pos % 5 == 2 {
                "seeded"
            } else if pos % 11 == 4 {
                "aggregated"
            } else {
                "unseeded"
            };
            let cfg = if kind == "aggregated" { Cfg::new(2, 2, 2, d) } else { Cfg::new(2, 1, 1, d) };
            let wit = Wit {
                values: (0..cfg.m).map(|j| ((pos + j) as u64) & 3).collect(),
                blindings: (0..cfg.m).map(|j| (0..d).map(|k| blinding(9000 + 4 * pos + j, k)).collect()).collect(),
                promises: vec![None; cfg.m],
                seed: if kind == "seeded" { Some(seed_scalar(20 + (pos % 3) as u64)) } else { None },
            };
            let ctx = contexts()[pos % 6];
            let built = build_cached::<P>(&cfg, &wit).honest();
            proofs.push(lib_prove_honest(&built, &ctx, &mut HRng::chacha(pos as u64)));
            sts.push(built.statement.clone());
            ctxs.push(ctx);
            expect.push(wit.seed.map(|_| wit.blindings[0].clone()));
        }
        let plain_ok = {
            let mut ts: Vec<Transcript> = ctxs.iter().map(|c| c.transcript()).collect();
            verify_observed(&sts, &proofs, &mut ts, VerifyAction::VerifyOnly).is_ok()
        };
        for mode in [VerifyAction::RecoverAndVerify, VerifyAction::RecoverOnly] {
            if !plain_ok && mode == VerifyAction::RecoverAndVerify {
                res.outcome = "valid-batch-not-accepted(noted)".into();
                continue;
            }
            let mut ts: Vec<Transcript> = ctxs.iter().map(|c| c.transcript()).collect();
            let obs = verify_observed(&sts, &proofs, &mut ts, mode);
            res.executions += 1;
            res.validated += 1;
            match &obs.result {
                Some(Ok(masks)) => {
                    if *masks != expect {
                        let bad: Vec<usize> = (0..expect.len().max(masks.len())).filter(|i| masks.get(*i) != expect.get(*i)).take(8).collect();
                        res.outcome = "wrong-mask".into();
                        res.violate(mode_name(mode), format!("{} results for {} members; first mismatching positions {:?}", masks.len(), expect.len(), bad));
                    }
                },
                _ => res.violate(mode_name(mode), format!("all-valid batch of {} failed: {}", len, obs.describe())),
            }
        }
        res
    })
}

fn cfgs(tier: Tier) -> Vec<Cfg> {
    let mut v = Vec::new();
    for &n in &BITS {
        for &c in &[1usize, 2, 8] {
            for d in 1..=6usize {
                if !tier.thorough() && c == 8 && !(d == 1 || d == 6) {
                    continue;
                }
                v.push(Cfg::new(n, 1, c, d));
            }
        }
    }
    v
}

fn single_cases<P: G>(tier: Tier) -> Vec<Box<dyn Case>> {
    let mut cases: Vec<Box<dyn Case>> = Vec::new();
    for cfg in cfgs(tier) {
        let base = Wit::default_for(&cfg);
        let seeds = seeds_alphabet();
        // every seed x default witness
        for (sn, s) in &seeds {
            let mut w = base.clone();
            w.seed = Some(*s);
            cases.push(recover_case::<P>(cfg, format!("seed={}", sn), w, CTX_A, "chacha-a"));
        }
        // values / promises (valid alphabet) with seed s0
        for v in values_alphabet(cfg.n) {
            for p in promises_valid(v) {
                let mut w = base.clone();
                w.seed = Some(seeds[0].1);
                w.values[0] = v;
                w.promises[0] = p;
                cases.push(recover_case::<P>(cfg, format!("value={},promise={:?}", v, p), w, CTX_A, "chacha-a"));
            }
        }
        // blinding alphabet at each component
        for k in 0..cfg.d {
            for (bn, b) in [("0", Scalar::ZERO), ("1", Scalar::ONE), ("l-1", -Scalar::ONE)] {
                let mut w = base.clone();
                w.seed = Some(seeds[1].1);
                w.blindings[0][k] = b;
                cases.push(recover_case::<P>(cfg, format!("blinding[{}]={}", k, bn), w, CTX_A, "chacha-a"));
            }
        }
        // every component zero / every component the same (the commitment v*H, and a mask nobody can tell apart by position)
        for (bn, b) in [("all-zero", Scalar::ZERO), ("all-one", Scalar::ONE)] {
            let mut w = base.clone();
            w.seed = Some(seeds[1].1);
            for k in 0..cfg.d {
                w.blindings[0][k] = b;
            }
            cases.push(recover_case::<P>(cfg, format!("blindings={}", bn), w, CTX_A, "chacha-a"));
        }
        // contexts and RNG models
        for ctx in contexts().into_iter().skip(1) {
            let mut w = base.clone();
            w.seed = Some(seeds[0].1);
            cases.push(recover_case::<P>(cfg, format!("ctx={}", ctx.key()), w, ctx, "chacha-a"));
        }
        for rng in RNG_MODELS.iter().skip(1) {
            let mut w = base.clone();
            w.seed = Some(seeds[0].1);
            cases.push(recover_case::<P>(cfg, format!("rng={}", rng), w, CTX_A, rng));
        }
    }
    cases
}

pub fn run(rep: &mut Report) {
    rep.rule = "m=1 configurations (all 7 bit lengths x capacity {1,2,8} x degree 1..6) x {6 seeds incl. 0, 1, l-1, top-byte; value x valid \
                promise alphabet; blinding alphabet per component; contexts; RNG models} with pairwise distinct blinding components; \
                oracle: mask == blinding vector component by component in both recovering modes, None in VerifyOnly, == reference \
                recovery; batch-composition BFS over {seedA, unseeded, aggregated, seedB} to depth 4 in all three modes (members at \
                different positions share seed A); long batches (257, 300; thorough to 600) mixing seeded / unseeded / aggregated members"
        .into();
    let tier = rep.tier;
    rep.explore("C09", single_cases::<F>(tier));
    rep.explore("C09", single_cases::<RistrettoPoint>(tier));
    let depth = if tier.thorough() { 5 } else { 4 };
    for d in [1usize, 3] {
        rep.explore("C09", batch_cases::<F>(2, d, depth));
        rep.explore("C09", batch_cases::<RistrettoPoint>(2, d, depth));
    }
    let lens: Vec<usize> = if tier.thorough() { vec![256, 257, 300, 513, 600] } else { vec![257, 300] };
    let mut long: Vec<Box<dyn Case>> = Vec::new();
    for len in lens {
        long.push(long_batch_case::<F>(len, 2));
        long.push(long_batch_case::<RistrettoPoint>(len, 2));
    }
    long.push(long_batch_case_layout::<F>(258, 1, "seedless-first-chunk"));
    long.push(long_batch_case_layout::<RistrettoPoint>(258, 1, "seedless-first-chunk"));
    rep.explore("C09", long);
    rep.expect_outcome("recovered");
}
