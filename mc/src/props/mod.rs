pub mod c01;
pub mod c02;
pub mod c03;
pub mod c04;
pub mod c05;
pub mod c06;
pub mod c07;
pub mod c08;
pub mod c09;
pub mod c10;
pub mod c11;
pub mod c12;
pub mod c13;
pub mod c14;
pub mod c15;
pub mod c16;
pub mod c17;
pub mod c18;
pub mod c19;
pub mod c20;

use crate::engine::Report;

pub fn level_of(id: &str) -> &'static str {
    match id {
        "C14" => "fault_enumeration",
        "C20" => "exploration",
        _ => "model_checking",
    }
}

pub fn run(id: &str, rep: &mut Report) -> bool {
    match id {
        "C01" => c01::run(rep),
        "C02" => c02::run(rep),
        "C03" => c03::run(rep),
        "C04" => c04::run(rep),
        "C05" => c05::run(rep),
        "C06" => c06::run(rep),
        "C07" => c07::run(rep),
        "C08" => c08::run(rep),
        "C09" => c09::run(rep),
        "C10" => c10::run(rep),
        "C11" => c11::run(rep),
        "C12" => c12::run(rep),
        "C13" => c13::run(rep),
        "C14" => c14::run(rep),
        "C15" => c15::run(rep),
        "C16" => c16::run(rep),
        "C17" => c17::run(rep),
        "C18" => c18::run(rep),
        "C19" => c19::run(rep),
        "C20" => c20::run(rep),
        _ => return false,
    }
    true
}

/// Case lists that can be rebuilt inside a child process (engine::explore_in_children)
pub fn child_cases(builder: &str, tier: crate::engine::Tier) -> Option<Vec<Box<dyn crate::engine::Case>>> {
    match builder {
        "C16" => Some(c16::build_cases(tier)),
        _ => None,
    }
}
