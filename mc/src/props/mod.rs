pub mod c01;
pub mod c02;
pub mod c03;

use crate::engine::Report;

pub fn level_of(id: &str) -> &'static str {
    match id {
        "C14" => "fault_enumeration",
        "C20" => "exploration",
        _ => "model_checking",
    }
}

pub fn run(id: &str, rep: &mut Report) -> bool {
    match id {
        "C01" => c01::run(rep),
        "C02" => c02::run(rep),
        "C03" => c03::run(rep),
        _ => return false,
    }
    true
}
