//! C11 Generators are distinct, deterministic and derived as specified (DESIGN.md 3, C11)

use std::collections::HashMap;

use curve25519_dalek::{constants::RISTRETTO_BASEPOINT_POINT, ristretto::RistrettoPoint, scalar::Scalar};
use serde_json::json;

use crate::{
    api::G,
    common::*,
    engine::{case, Case, CaseResult, Report},
    fg::{self, F},
    refbp,
    sched,
};

fn config_case<P: G>(n: usize, c: usize, d: usize, probe_all: bool) -> Box<dyn Case> {
    case(format!("{}/n={},c={},d={}", P::NAME, n, c, d), move |_v| {
        fg::clear_intern();
        let mut res = CaseResult::new("explored");
        // fresh construction (not the cached object): this is the code under test
        let params = match catch(|| P::params(n, c, P::pc_gens(d))) {
            Ok(Ok(p)) => p,
            other => {
                res.violate("construct", format!("parameter construction failed: {:?}", other.map(|r| r.map(|_| ()).map_err(|e| crate::api::err_name(&e)))));
                return res;
            },
        };
        res.executions += 1;
        let gi = P::gi_vec(&params);
        let hi = P::hi_vec(&params);
        if gi.len() != n * c || hi.len() != n * c {
            res.violate("count", format!("{} / {} vector generators for n*c = {}", gi.len(), hi.len(), n * c));
            return res;
        }
        // (1) pairwise distinct, none the identity
        let mut seen: HashMap<[u8; 32], String> = HashMap::new();
        let mut all: Vec<(String, P)> = vec![("H".to_string(), params.h_base().clone())];
        for (k, g) in params.g_bases().iter().enumerate() {
            all.push((format!("G{}", k), g.clone()));
        }
        for (i, g) in gi.iter().enumerate() {
            all.push((format!("Gi[party {}][{}]", i / n, i % n), g.clone()));
        }
        for (i, h) in hi.iter().enumerate() {
            all.push((format!("Hi[party {}][{}]", i / n, i % n), h.clone()));
        }
        for (name, p) in &all {
            let cb = p.g_compress();
            res.validated += 1;
            if cb == [0u8; 32] {
                res.violate(format!("identity/{}", name), format!("generator {} is the identity", name));
            }
            if let Some(prev) = seen.insert(cb, name.clone()) {
                res.violate(format!("distinct/{}", name), format!("generators {} and {} are the same point", prev, name));
            }
        }
        // (2) each equals the documented derivation (independent SHAKE256 / SHA3-512 code)
        let (rg, rh) = refbp::ref_gens::<P>(n, c);
        res.validated += 1;
        if gi != rg || hi != rh {
            let fg_ = (0..n * c).find(|i| gi[*i] != rg[*i]);
            let fh = (0..n * c).find(|i| hi[*i] != rh[*i]);
            res.violate(
                "derivation",
                format!(
                    "vector generators differ from SHAKE256('GeneratorsChain' || kind || LE32(party)): first G difference at party {:?}, first H difference at party {:?}",
                    fg_.map(|i| i / n),
                    fh.map(|i| i / n)
                ),
            );
        }
        if !P::IS_F {
            // commitment generators of the shipped instantiation
            let h_expect = P::g_decompress(&RISTRETTO_BASEPOINT_POINT.compress().to_bytes()).unwrap();
            if *params.h_base() != h_expect {
                res.violate("derivation/H", "value generator is not the Ristretto basepoint");
            }
            for k in 0..d {
                res.validated += 1;
                if params.g_bases()[k] != refbp::ref_masking_basepoint::<P>(k) {
                    res.violate(format!("derivation/G{}", k), format!("blinding generator {} is not SHA3-512('RISTRETTO_MASKING_BASEPOINT_{}') mapped to the group", k, k + 1));
                }
            }
        }
        // (3) compressed accessors are the encodings of the same points
        res.validated += 1;
        if P::h_compressed(&params) != params.h_base().g_compress() {
            res.violate("compressed/H", "h_base_compressed is not the encoding of h_base");
        }
        let gc = P::g_compressed(&params);
        if gc.len() != d || (0..d).any(|k| gc[k] != params.g_bases()[k].g_compress()) {
            res.violate("compressed/G", "g_bases_compressed are not the encodings of g_bases");
        }
        // (4) the precomputed table, interrogated one unit vector at a time: position t holds the t-th element of
        //     G_0,0 H_0,0 G_0,1 H_0,1 ...
        let total = 2 * n * c;
        let probes: Vec<usize> = if probe_all || total <= 256 {
            (0..total).collect()
        } else {
            // every position of the first and last party, and the first / last position of every other party
            let mut v: Vec<usize> = (0..2 * n).collect();
            v.extend(total - 2 * n..total);
            for p in 1..c - 1 {
                v.extend([2 * n * p, 2 * n * p + 1, 2 * n * (p + 1) - 2, 2 * n * (p + 1) - 1]);
            }
            v.sort();
            v.dedup();
            v
        };
        let mut scalars = vec![Scalar::ZERO; total];
        for t in probes {
            scalars[t] = Scalar::ONE;
            let got = match catch(|| P::precomp_static(&params, &scalars)) {
                Ok(p) => p,
                Err(p) => {
                    res.violate(format!("table[{}]", t), format!("table probe panicked: {}", p));
                    break;
                },
            };
            scalars[t] = Scalar::ZERO;
            res.validated += 1;
            res.executions += 1;
            let expect = if t % 2 == 0 { &gi[t / 2] } else { &hi[t / 2] };
            if got != *expect {
                res.violate(format!("table[{}]", t), format!("precomputed table position {} is not {} of index {}", t, if t % 2 == 0 { "Gi" } else { "Hi" }, t / 2));
                break;
            }
        }
        res.sample = Some(json!({"n": n, "c": c, "d": d, "points": all.len()}));
        res
    })
}

/// (4'') clone_from between parameter objects of equal and different shapes (generators and table of the result), (4') the public iterators under every mixture of next() and nth(k), skip / step_by / count / last (5 small parameter sets), (5) construction histories: building other parameter objects first never changes what a construction returns
fn history_case<P: G>(hist: Vec<(usize, usize)>) -> Box<dyn Case> {
    let name: Vec<String> = hist.iter().map(|(n, c)| format!("({},{})", n, c)).collect();
    case(format!("{}/history/{}", P::NAME, name.join("")), move |_v| {
        fg::clear_intern();
        let mut res = CaseResult::new("explored");
        res.transitions = hist.len() as u64;
        let mut kept = Vec::new();
        for (n, c) in &hist {
            let p = P::params(*n, *c, P::pc_gens(3)).unwrap();
            res.executions += 1;
            let (rg, rh) = refbp::ref_gens::<P>(*n, *c);
            res.validated += 1;
            if P::gi_vec(&p) != rg || P::hi_vec(&p) != rh {
                res.violate(format!("after-{}-constructions", kept.len()), format!("construction ({},{}) after {} others differs from the derivation", n, c, kept.len()));
            }
            kept.push(p);
        }
        // earlier objects are unchanged by later constructions
        for (p, (n, c)) in kept.iter().zip(hist.iter()) {
            let (rg, _) = refbp::ref_gens::<P>(*n, *c);
            if P::gi_vec(p) != rg {
                res.violate("earlier-object", "an earlier parameter object changed after a later construction");
            }
        }
        res
    })
}

/// The generators a parameter object (and its clones) hands out do not change when the object is used for proving and
/// verifying with various aggregation sizes
fn after_use_case<P: G>(n: usize, c: usize, read_first: bool) -> Box<dyn Case> {
    use crate::api::HRng;
    case(format!("{}/after-use/n={},c={}/read-before-first-use={}", P::NAME, n, c, read_first), move |_v| {
        fg::clear_intern();
        let mut res = CaseResult::new("explored");
        let params = P::params(n, c, P::pc_gens(1)).unwrap();
        let (rg, rh) = refbp::ref_gens::<P>(n, c);
        let mut check = |res: &mut CaseResult, when: &str, p: &tari_bulletproofs_plus::range_parameters::RangeParameters<P>| {
            res.validated += 1;
            let (g, h) = (P::gi_vec(p), P::hi_vec(p));
            if g != rg || h != rh {
                res.violate(when.to_string(), format!("after {}: the parameter object hands out {} / {} vector generators (expected {}), or they differ from the derivation", when, g.len(), h.len(), n * c));
            }
        };
        if read_first {
            check(&mut res, "construction", &params);
        }
        let mut m = 1usize;
        let mut sizes = Vec::new();
        while m <= c {
            sizes.push(m);
            m *= 2;
        }
        let mut order = sizes.clone();
        order.extend(sizes.iter().rev());
        for m in order {
            res.transitions += 1;
            let cfg = Cfg::new(n, m, c, 1);
            let wit = Wit::default_for(&cfg);
            let commitments = commitments_for(params.pc_gens(), &wit).unwrap();
            let st = P::statement(params.clone(), commitments, wit.promises.clone(), None).unwrap();
            let witness = witness_for(&wit).unwrap();
            let mut t = CTX_A.transcript();
            let proved = catch(|| P::prove(&mut t, &st, &witness, &mut HRng::chacha(5)));
            res.executions += 1;
            if let Ok(Ok(proof)) = proved {
                let obs = verify_observed_one(&st, &proof, &CTX_A, tari_bulletproofs_plus::range_proof::VerifyAction::VerifyOnly);
                res.executions += 1;
                *res.outcome_counter(&format!("after-use-verify:{}", obs.class())) += 1;
            } else {
                *res.outcome_counter("after-use-prove-failed(noted)") += 1;
            }
            check(&mut res, &format!("proving and verifying an aggregate of {}", m), &params);
            check(&mut res, &format!("proving and verifying an aggregate of {} (read through a clone)", m), &params.clone());
        }
        res
    })
}

/// `a.clone_from(&b)`: afterwards `a` is `b` -- its generators AND the precomputed table that represents them (a table is
/// probed one unit vector at a time against the interleaved order of the generators the object hands out)
fn clone_from_case<P: G>(from: (usize, usize), onto: (usize, usize)) -> Box<dyn Case> {
    case(format!("{}/clone-from/({},{})-onto-({},{})", P::NAME, from.0, from.1, onto.0, onto.1), move |_v| {
        fg::clear_intern();
        let mut res = CaseResult::new("explored");
        let src = P::params(from.0, from.1, P::pc_gens(1)).honest();
        let mut dst = P::params(onto.0, onto.1, P::pc_gens(2)).honest();
        if catch(std::panic::AssertUnwindSafe(|| dst.clone_from(&src))).is_err() {
            res.violate("clone_from", "clone_from panicked");
            return res;
        }
        res.executions += 1;
        let (n, c) = from;
        let (rg, rh) = refbp::ref_gens::<P>(n, c);
        let (g, h) = (P::gi_vec(&dst), P::hi_vec(&dst));
        res.validated += 1;
        if g != rg || h != rh || dst.bit_length() != n || dst.max_aggregation_factor() != c || dst.extension_degree() as usize != 1 {
            res.violate("generators", "after clone_from the object does not hand out the source's generators / shape");
            return res;
        }
        // table: position 2i is G_i, position 2i+1 is H_i
        let len = 2 * n * c;
        for pos in 0..len {
            res.transitions += 1;
            let mut scalars = vec![Scalar::ZERO; len];
            scalars[pos] = Scalar::ONE;
            let want = if pos % 2 == 0 { &g[pos / 2] } else { &h[pos / 2] };
            match catch(|| P::precomp_static(&dst, &scalars)) {
                Ok(got) => {
                    res.validated += 1;
                    if got != *want {
                        res.violate(format!("table[{}]", pos), format!("after clone_from, entry {} of the precomputed table is not the generator the object hands out at that place", pos));
                        break;
                    }
                },
                Err(p) => {
                    res.violate(format!("table[{}]", pos), format!("after clone_from, the table probe panicked: {}", p));
                    break;
                },
            }
        }
        res
    })
}

/// The public generator iterators honour the Iterator protocol: whatever mixture of next() and nth(k) is used, and through
/// skip / step_by / count / last, position p of the iteration is generator p of the collected vector (which `config_case`
/// compares with the derivation)
fn iterator_protocol_case<P: G>(n: usize, c: usize) -> Box<dyn Case> {
    case(format!("{}/iterator-protocol/n={},c={}", P::NAME, n, c), move |_v| {
        fg::clear_intern();
        let mut res = CaseResult::new("explored");
        let params = P::params(n, c, P::pc_gens(1)).honest();
        for h in [false, true] {
            let which = if h { "hi_base_iter" } else { "gi_base_iter" };
            let v = if h { P::hi_vec(&params) } else { P::gi_vec(&params) };
            let len = v.len();
            // a next() calls, then nth(k), then next(): every (a, k)
            for a in 0..=len {
                for k in 0..=(len - a) {
                    res.transitions += 1;
                    let mut steps: Vec<(bool, usize)> = vec![(false, 0); a];
                    steps.push((true, k));
                    steps.push((false, 0));
                    let got = P::gens_iter_walk(&params, h, &steps);
                    res.executions += 1;
                    res.validated += 1;
                    let want_nth = v.get(a + k).cloned();
                    let want_next = if a + k < len { v.get(a + k + 1).cloned() } else { None };
                    if got[a] != want_nth || got[a + 1] != want_next {
                        res.violate(
                            format!("{}/next*{},nth({})", which, a, k),
                            format!("{}: after {} next() calls, nth({}) / the following next() do not yield generators {} / {}", which, a, k, a + k, a + k + 1),
                        );
                    }
                }
                let (count, last) = P::gens_iter_count_last(&params, h, a);
                if count != len - a || last != (if a < len { v.last().cloned() } else { None }) {
                    res.violate(format!("{}/next*{},count/last", which, a), format!("{}: count() / last() after {} next() calls are wrong", which, a));
                }
            }
            for a in 0..len {
                for s in 1..=len {
                    res.transitions += 1;
                    res.executions += 1;
                    let got = P::gens_iter_skip_step(&params, h, a, s);
                    let want: Vec<P> = v.iter().skip(a).step_by(s).cloned().collect();
                    if got != want {
                        res.violate(format!("{}/skip({}).step_by({})", which, a, s), format!("{}: skip({}).step_by({}) does not yield the generators at those positions", which, a, s));
                    }
                }
            }
        }
        res
    })
}

pub fn run(rep: &mut Report) {
    rep.rule = "every (bits, capacity) in {1,2,4,8,16,32,64} x {1,2,4,8,16,32} x extension degree 1..6 (quick: all degrees at capacity 1, {1,6} up to 8, 1 above), fresh construction: (1) the \
                1+d+2*n*c points are pairwise distinct and none is the identity, (2) each equals the independent SHAKE256 / SHA3-512 \
                derivation, (3) compressed accessors are the encodings of the same points, (4) the precomputed table is interrogated one \
                unit vector at a time against the interleaved order, (4'') clone_from between parameter objects of equal and different shapes (generators and table of the result), (4') the public iterators under every mixture of next() and nth(k), skip / step_by / count / last (5 small parameter sets), (5) construction histories of length <= 3 over the (n,c) alphabet, and use histories (prove + verify aggregates of every size, up and down) \
                after which the object and its clones must still hand out the same generators; \
                schedules: first-use race of the two cached generator arrays, every interleaving with <= 2 (thorough 3) preemptions, one \
                fresh process per schedule"
        .into();
    let thorough = rep.tier.thorough();
    // every capacity in both tiers (a constructor that treats parties in blocks shows only from 16 up)
    let caps: Vec<usize> = vec![1, 2, 4, 8, 16, 32];
    let mut cases: Vec<Box<dyn Case>> = Vec::new();
    for &n in &BITS {
        for &c in &caps {
            for d in 1..=6usize {
                // the vector generators do not depend on d: all degrees at the smallest capacity, degrees {1,6} elsewhere
                if c > 1 && !(d == 1 || d == 6) && !thorough {
                    continue;
                }
                if c > 8 && d != 1 && !thorough {
                    continue;
                }
                cases.push(config_case::<RistrettoPoint>(n, c, d, thorough || n * c <= 128));
                if d == 1 {
                    cases.push(config_case::<F>(n, c, d, true));
                }
            }
        }
    }
    let alphabet = [(1usize, 1usize), (2, 4), (8, 2), (64, 1)];
    for a in alphabet {
        cases.push(history_case::<RistrettoPoint>(vec![a]));
        for b in alphabet {
            cases.push(history_case::<RistrettoPoint>(vec![a, b]));
            for c in alphabet {
                if thorough || a != c {
                    cases.push(history_case::<RistrettoPoint>(vec![a, b, c]));
                }
            }
        }
    }
    for (n, c) in [(2usize, 4usize), (8, 4), (8, 8), (64, 2)] {
        for read_first in [false, true] {
            cases.push(after_use_case::<RistrettoPoint>(n, c, read_first));
            cases.push(after_use_case::<F>(n, c, read_first));
        }
    }
    for (from, onto) in [((2usize, 2usize), (2usize, 2usize)), ((4, 2), (2, 4)), ((2, 4), (8, 1)), ((8, 1), (2, 2)), ((2, 2), (4, 4))] {
        cases.push(clone_from_case::<RistrettoPoint>(from, onto));
        cases.push(clone_from_case::<F>(from, onto));
    }
    for (n, c) in [(1usize, 4usize), (2, 2), (4, 2), (2, 8), (8, 2)] {
        cases.push(iterator_protocol_case::<RistrettoPoint>(n, c));
        cases.push(iterator_protocol_case::<F>(n, c));
    }
    rep.explore("C11", cases);
    // schedules: racing first use of the cached arrays
    sched::explore_first_use(rep, "C11", if thorough { 3 } else { 2 }, thorough);
}
