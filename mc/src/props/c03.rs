//! C03 Batch verification accepts iff every member verifies, at any size and order (DESIGN.md 3, C03)

use std::sync::Arc;

use curve25519_dalek::{ristretto::RistrettoPoint, scalar::Scalar};
use merlin::Transcript;
use serde_json::json;
use tari_bulletproofs_plus::{
    range_proof::{RangeProof, VerifyAction},
    range_statement::RangeStatement,
};

use crate::{
    api::{pc_gens_from, HRng, G},
    common::*,
    engine::{case, Case, CaseResult, Report},
    fg::{self, F},
    refbp::{self},
};

pub const KINDS: [&str; 10] = ["V", "V2", "Vc", "S", "Vp", "I", "J", "Ip", "Im", "X2"];

pub struct Member<P: G> {
    pub kind: &'static str,
    pub statement: RangeStatement<P>,
    pub proof: RangeProof<P>,
    pub ctx: Ctx,
    /// verdict of the member verified alone by the library (singleton batch)
    pub alone_ok: bool,
    /// verdict of the reference model
    pub ref_ok: bool,
    pub mask: Option<Vec<Scalar>>,
}

pub struct Templates<P: G> {
    pub n: usize,
    pub d: usize,
    /// members[pos][kind index]
    pub members: Vec<Vec<Member<P>>>,
    pub intern: Arc<std::sync::Mutex<std::collections::HashMap<[u8; 32], F>>>,
    pub problems: Vec<String>,
}

fn kind_cfg(kind: &str, n: usize, d: usize) -> Cfg {
    match kind {
        "V2" | "X2" => Cfg::new(n, 2, 2, d),
        "Vc" => Cfg::new(n, 1, 4, d),
        _ => Cfg::new(n, 1, 1, d),
    }
}

pub fn make_member<P: G>(kind: &'static str, pos: usize, n: usize, d: usize) -> Member<P> {
    let cfg = kind_cfg(kind, n, d);
    let mut wit = Wit {
        values: (0..cfg.m).map(|j| ((pos + j) as u64) & cfg.max_value()).collect(),
        blindings: (0..cfg.m).map(|j| (0..d).map(|k| blinding(1000 + pos * 8 + j, k)).collect()).collect(),
        promises: vec![None; cfg.m],
        seed: None,
    };
    if kind == "S" {
        wit.seed = Some(seed_scalar(pos as u64 % 5));
    }
    if kind == "Vp" {
        // a valid member carrying a non-zero minimum-value promise
        wit.values[0] = 2 + (pos as u64 & 1);
        wit.promises[0] = Some(1 + (pos as u64 & 1));
    }
    let ctx = contexts()[pos % 6];
    let built = build_cached::<P>(&cfg, &wit).honest();
    // "Vc" (one commitment over parameters with room for four): proved over parameters of capacity 1 and presented with the
    // statement over the wide ones, so that the member exists whatever the PROVER thinks of spare capacity
    let proof = if kind == "Vc" {
        let tight = build_cached::<P>(&Cfg::new(cfg.n, cfg.m, cfg.m, cfg.d), &wit).honest();
        lib_prove_honest(&tight, &ctx, &mut HRng::chacha(pos as u64 + 17))
    } else {
        lib_prove_honest(&built, &ctx, &mut HRng::chacha(pos as u64 + 17))
    };
    let mut statement = built.statement.clone();
    let mut proof_final = proof;
    let delta = Scalar::from(0x1234_5678u64);
    match kind {
        "I" | "Ip" | "Im" => {
            let mut rp = ref_proof_of(&proof_final).unwrap();
            match kind {
                "I" => rp.r1 += Scalar::ONE,
                "Ip" => rp.d1[0] += delta,
                _ => rp.d1[0] -= delta,
            }
            proof_final = P::from_bytes(&refbp::ref_encode(&rp)).expect("mutant decodes");
        },
        "X2" => {
            // the largest kind of member, re-encoded with another extension-degree tag and one more / one fewer d1 scalar
            let mut rp = ref_proof_of(&proof_final).unwrap();
            let d2 = if d < 6 { d + 1 } else { d - 1 };
            rp.ext = d2 as u8;
            rp.d1.resize(d2, Scalar::from(7u8));
            proof_final = P::from_bytes(&refbp::ref_encode(&rp)).expect("mutant decodes");
        },
        "J" => {
            let mut cs = built.commitments.clone();
            cs[0] = cs[0].g_add(built.params.h_base());
            statement = restate(&built, cs, wit.promises.clone(), wit.seed).unwrap();
        },
        _ => {},
    }
    let alone = match catch(|| lib_verify_one(&statement, &proof_final, &ctx, VerifyAction::RecoverAndVerify)) {
        Ok(r) => r,
        Err(p) => Err(tari_bulletproofs_plus::errors::ProofError::InvalidArgument(format!("HARNESS: singleton verification panicked: {}", p))),
    };
    let rst = ref_statement(&statement);
    let ref_ok = match ref_proof_of(&proof_final) {
        Some(rp) => {
            let mut t = ctx.transcript();
            refbp::ref_verify(&mut t, &rst, &rp).verdict.accepts()
        },
        None => false,
    };
    let mask = if kind == "S" { Some(wit.blindings[0].clone()) } else { None };
    Member {
        kind,
        statement,
        proof: proof_final,
        ctx,
        alone_ok: alone.is_ok(),
        ref_ok,
        mask,
    }
}

pub fn templates<P: G>(n: usize, d: usize, positions: usize, kinds: &[&'static str]) -> Templates<P> {
    fg::clear_intern();
    let mut members = Vec::new();
    let mut problems = Vec::new();
    for pos in 0..positions {
        let mut row = Vec::new();
        for k in kinds {
            let m = make_member::<P>(k, pos, n, d);
            // the oracle of this property is the member's own singleton verdict; what the reference model thinks of the
            // member is noted, not required
            if m.alone_ok != m.ref_ok {
                problems.push(format!("member {}@{}: library alone {} but reference {}", k, pos, m.alone_ok, m.ref_ok));
            }
            row.push(m);
        }
        members.push(row);
    }
    Templates {
        n,
        d,
        members,
        intern: fg::intern_handle(),
        problems,
    }
}

/// Verify a batch of member references and compare with the oracle
pub fn check_batch<P: G>(batch: &[&Member<P>], mode: VerifyAction, sub: &str, res: &mut CaseResult) {
    let sts: Vec<RangeStatement<P>> = batch.iter().map(|m| m.statement.clone()).collect();
    let proofs: Vec<RangeProof<P>> = batch.iter().map(|m| P::proof_clone(&m.proof)).collect();
    let mut ts: Vec<Transcript> = batch.iter().map(|m| m.ctx.transcript()).collect();
    let obs = verify_observed(&sts, &proofs, &mut ts, mode);
    res.executions += 1;
    res.validated += 1;
    let expect_ok = batch.iter().all(|m| m.alone_ok);
    if obs.panic.is_some() {
        res.violate(sub.to_string(), format!("batch verification panicked: {}", obs.describe()));
        return;
    }
    *res.outcome_counter(if obs.is_ok() { "batch-accepted" } else { "batch-rejected" }) += 1;
    if obs.is_ok() != expect_ok {
        let bad: Vec<usize> = batch.iter().enumerate().filter(|(_, m)| !m.alone_ok).map(|(i, _)| i).collect();
        res.violate(
            sub.to_string(),
            format!(
                "batch of {} in {}: library says {} but members that fail alone are at positions {:?}",
                batch.len(),
                mode_name(mode),
                obs.describe(),
                bad
            ),
        );
        return;
    }
    if let Some(Ok(masks)) = &obs.result {
        if masks.len() != batch.len() {
            res.violate(format!("{}/count", sub), format!("{} results returned for {} triples", masks.len(), batch.len()));
            return;
        }
        for (i, (got, m)) in masks.iter().zip(batch.iter()).enumerate() {
            let expect = if mode == VerifyAction::VerifyOnly { None } else { m.mask.clone() };
            if *got != expect {
                res.violate(
                    format!("{}/result[{}]", sub, i),
                    format!("result {} does not belong to triple {} (kind {}): got {}, expected {}", i, i, m.kind, got.is_some(), expect.is_some()),
                );
                break;
            }
        }
    }
}

fn bfs_cases<P: G>(tpl: Arc<Templates<P>>, depth: usize) -> Vec<Box<dyn Case>> {
    let mut cases: Vec<Box<dyn Case>> = Vec::new();
    let nk = KINDS.len();
    // states = sequences over the member-kind alphabet, breadth first
    let mut frontier: Vec<Vec<usize>> = vec![vec![]];
    for _ in 0..depth {
        let mut next = Vec::new();
        for s in &frontier {
            for k in 0..nk {
                let mut t = s.clone();
                t.push(k);
                next.push(t);
            }
        }
        for seq in &next {
            let name: Vec<&str> = seq.iter().map(|k| KINDS[*k]).collect();
            let key = format!("{}/d={}/bfs/{}", P::NAME, tpl.d, name.join(","));
            let seq = seq.clone();
            let tpl = tpl.clone();
            cases.push(case(key, move |_v| {
                fg::set_intern(tpl.intern.clone());
                let mut res = CaseResult::new("explored");
                res.transitions = seq.len() as u64;
                let batch: Vec<&Member<P>> = seq.iter().enumerate().map(|(pos, k)| &tpl.members[pos][*k]).collect();
                for mode in [VerifyAction::RecoverAndVerify, VerifyAction::VerifyOnly] {
                    check_batch(&batch, mode, mode_name(mode), &mut res);
                }
                res.sample = Some(json!({"batch": seq.iter().map(|k| KINDS[*k]).collect::<Vec<_>>()}));
                res
            }));
        }
        frontier = next;
    }
    cases
}

fn long_cases<P: G>(tpl: Arc<Templates<P>>, lengths: &[usize], every_position: bool) -> Vec<Box<dyn Case>> {
    // tpl.members[pos] = [V, S, I, Ip, Im] for long batches
    let mut cases: Vec<Box<dyn Case>> = Vec::new();
    for &len in lengths {
        let default: Vec<usize> = (0..len)
            .map(|p| if p % 7 == 3 || p == 1 || p == 256 || p == 512 || p + 1 == len { 1 } else { 0 })
            .collect();
        let mk = |name: String, kinds: Vec<usize>, rot: usize, tpl: Arc<Templates<P>>| -> Box<dyn Case> {
            case(format!("{}/d={}/long/L={}/{}", P::NAME, tpl.d, len, name), move |_v| {
                fg::set_intern(tpl.intern.clone());
                let mut res = CaseResult::new("explored");
                let l = kinds.len();
                let batch: Vec<&Member<P>> = (0..l).map(|i| {
                    let p = (i + rot) % l;
                    &tpl.members[p][kinds[p]]
                }).collect();
                check_batch(&batch, VerifyAction::RecoverAndVerify, "RecoverAndVerify", &mut res);
                res
            })
        };
        cases.push(mk("all-valid".into(), default.clone(), 0, tpl.clone()));
        let special: Vec<usize> = [0usize, 1, 254, 255, 256, 257, 510, 511, 512, len - 1].iter().cloned().filter(|p| *p < len).collect();
        let positions: Vec<usize> = if every_position { (0..len).collect() } else { special.clone() };
        let mut seen = std::collections::BTreeSet::new();
        for p in positions {
            if !seen.insert(p) {
                continue;
            }
            let mut k = default.clone();
            k[p] = 2;
            cases.push(mk(format!("invalid@{}", p), k, 0, tpl.clone()));
        }
        let pair_pos: Vec<usize> = [0usize, 255, 256, len - 1].iter().cloned().filter(|p| *p < len).collect();
        let mut seen2 = std::collections::BTreeSet::new();
        for &a in &pair_pos {
            for &b in &pair_pos {
                if a == b || !seen2.insert((a, b)) {
                    continue;
                }
                // cancelling pair: +delta at a, -delta at b
                let mut k = default.clone();
                k[a] = 3;
                k[b] = 4;
                cases.push(mk(format!("cancelling-pair@{},{}", a, b), k, 0, tpl.clone()));
            }
        }
        // one larger member (aggregation 2, its own capacity) at the chunk boundaries, alone and with an invalid member
        let mut seen3 = std::collections::BTreeSet::new();
        for &p in &[0usize, 1, 255, 256, len - 1] {
            if p >= len || !seen3.insert(p) {
                continue;
            }
            let mut k = default.clone();
            k[p] = 5;
            cases.push(mk(format!("larger-member@{}", p), k.clone(), 0, tpl.clone()));
            let q = if p == len - 1 { 0 } else { len - 1 };
            k[q] = 2;
            cases.push(mk(format!("larger-member@{}+invalid@{}", p, q), k, 0, tpl.clone()));
        }
        for rot in [1usize, 255, 256, 257] {
            if rot < len {
                cases.push(mk(format!("rotated-by-{}", rot), default.clone(), rot, tpl.clone()));
                let mut k = default.clone();
                k[len - 1] = 2;
                cases.push(mk(format!("rotated-by-{}+invalid@last", rot), k, rot, tpl.clone()));
            }
        }
    }
    cases
}

fn refusal_cases<P: G>(tpl: Arc<Templates<P>>) -> Vec<Box<dyn Case>> {
    let mut cases: Vec<Box<dyn Case>> = Vec::new();
    // all (|transcripts|, |statements|, |proofs|) in {0..3}^3
    for a in 0..4usize {
        for b in 0..4usize {
            for c in 0..4usize {
                let tpl = tpl.clone();
                cases.push(case(format!("{}/d={}/lengths/t={},s={},p={}", P::NAME, tpl.d, a, b, c), move |_v| {
                    fg::set_intern(tpl.intern.clone());
                    let mut res = CaseResult::new("explored");
                    let sts: Vec<RangeStatement<P>> = (0..b).map(|i| tpl.members[i][0].statement.clone()).collect();
                    let proofs: Vec<RangeProof<P>> = (0..c).map(|i| P::proof_clone(&tpl.members[i][0].proof)).collect();
                    for mode in MODES {
                        let mut ts: Vec<Transcript> = (0..a).map(|i| tpl.members[i][0].ctx.transcript()).collect();
                        let obs = verify_observed(&sts, &proofs, &mut ts, mode);
                        res.executions += 1;
                        let expect_ok = a == b && b == c && a >= 1;
                        *res.outcome_counter(if obs.is_ok() { "lengths-accepted" } else { "lengths-refused" }) += 1;
                        if obs.panic.is_some() || obs.is_ok() != expect_ok {
                            res.violate(mode_name(mode), format!("length triple ({},{},{}): {}", a, b, c, obs.describe()));
                        }
                    }
                    res
                }));
            }
        }
    }
    cases
}

/// An accepted member next to a copy of ITSELF in which one response was altered (same statement, same transcript context,
/// same proof up to that response): the copy does not verify alone, so no layout holding it is accepted
fn altered_copy_cases<P: G>(tpl: Arc<Templates<P>>) -> Vec<Box<dyn Case>> {
    let mut cases: Vec<Box<dyn Case>> = Vec::new();
    let idx = |k: &str| KINDS.iter().position(|x| *x == k).unwrap();
    for pos in 0..tpl.members.len().min(2) {
        for alt in ["I", "Ip", "Im"] {
            for (lname, layout) in [("orig,copy", vec![0usize, 1]), ("copy,orig", vec![1, 0]), ("orig,orig,copy", vec![0, 0, 1]), ("orig,copy,orig", vec![0, 1, 0])] {
                let tpl = tpl.clone();
                cases.push(case(format!("{}/d={}/altered-copy/pos={}/{}/{}", P::NAME, tpl.d, pos, alt, lname), move |_v| {
                    fg::set_intern(tpl.intern.clone());
                    let mut res = CaseResult::new("explored");
                    let orig = &tpl.members[pos][idx("V")];
                    let copy = &tpl.members[pos][idx(alt)];
                    let batch: Vec<&Member<P>> = layout.iter().map(|k| if *k == 0 { orig } else { copy }).collect();
                    for mode in [VerifyAction::VerifyOnly, VerifyAction::RecoverAndVerify] {
                        res.transitions += 1;
                        check_batch(&batch, mode, mode_name(mode), &mut res);
                    }
                    res
                }));
            }
        }
    }
    cases
}

/// Length triples around the chunk limit: a list that is one short (or one long) at a multiple of 256 must be refused like
/// any other mismatch (a per-chunk check sees only complete chunks there)
fn long_refusal_cases<P: G>(long: Arc<Templates<P>>) -> Vec<Box<dyn Case>> {
    let mut cases: Vec<Box<dyn Case>> = Vec::new();
    let avail = long.members.len();
    for base in [256usize, 512] {
        if base + 1 > avail {
            continue;
        }
        for (a, b, c) in [
            (base, base + 1, base + 1),
            (base + 1, base, base + 1),
            (base + 1, base + 1, base),
            (base, base, base + 1),
            (base, base + 1, base),
            (base + 1, base, base),
            (base - 1, base, base),
            (base, base - 1, base - 1),
        ] {
            let long = long.clone();
            cases.push(case(format!("{}/d={}/lengths/t={},s={},p={}", P::NAME, long.d, a, b, c), move |_v| {
                fg::set_intern(long.intern.clone());
                let mut res = CaseResult::new("explored");
                let sts: Vec<RangeStatement<P>> = (0..b).map(|i| long.members[i][0].statement.clone()).collect();
                let proofs: Vec<RangeProof<P>> = (0..c).map(|i| P::proof_clone(&long.members[i][0].proof)).collect();
                for mode in MODES {
                    let mut ts: Vec<Transcript> = (0..a).map(|i| long.members[i][0].ctx.transcript()).collect();
                    let obs = verify_observed(&sts, &proofs, &mut ts, mode);
                    res.executions += 1;
                    res.validated += 1;
                    *res.outcome_counter(if obs.is_ok() { "lengths-accepted" } else { "lengths-refused" }) += 1;
                    if obs.panic.is_some() || obs.is_ok() {
                        res.violate(mode_name(mode), format!("length triple ({},{},{}): {}", a, b, c, obs.describe()));
                    }
                }
                res
            }));
        }
    }
    cases
}

/// The "only if" direction against an adaptive submitter (over F): C08's three-run procedure on otherwise valid members.
/// The last run is a batch of two members that are each invalid alone; it must not be accepted.
fn adaptive_cases(d: usize) -> Vec<Box<dyn Case>> {
    use crate::props::c08;
    let mut cases: Vec<Box<dyn Case>> = Vec::new();
    for size in [2usize, 3] {
        cases.push(case(format!("freemodule/d={}/adaptive-pair-of-invalid-members/size={}", d, size), move |_v| {
            fg::clear_intern();
            let mut res = CaseResult::new("explored");
            let batch: Vec<c08::Member> = (0..size).map(|p| c08::plain_member(p, 1, d)).collect();
            for mode in [VerifyAction::VerifyOnly, VerifyAction::RecoverAndVerify] {
                for i in 0..size {
                    for j in 0..size {
                        if i == j {
                            continue;
                        }
                        for k in 0..d {
                            res.transitions += 1;
                            res.executions += 3;
                            res.validated += 1;
                            match c08::three_run_attack(&batch, i, j, k, mode, false) {
                                // a single shifted member accepted / nothing compared: the plain cases of this check own that
                                Err(_) => *res.outcome_counter("adaptive-setup-failed(skipped)") += 1,
                                Ok((accepted, _)) => {
                                    *res.outcome_counter(if accepted { "adaptive-batch-accepted" } else { "adaptive-batch-rejected" }) += 1;
                                    if accepted {
                                        res.violate(
                                            format!("{}/members=({},{})/k={}", mode_name(mode), i, j, k),
                                            "a batch in which two members do not verify alone (responses shifted by amounts computed from two earlier runs) was accepted",
                                        );
                                    }
                                },
                            }
                        }
                    }
                }
            }
            res
        }));
    }
    cases
}

/// A member that verifies alone but disagrees with the rest of the batch on one parameter
/// `statement_only`: the proof is an honest proof under the *batch's* parameters and only the member's statement
/// claims the other parameters (so a verifier that silently uses the first member's parameters would accept)
fn disagreeing_member<P: G>(what: &str, n: usize, d: usize, pos: usize, m: usize, statement_only: bool) -> Option<Member<P>> {
    let mut cfg = Cfg::new(n, m, m, d);
    let base_pc = P::pc_gens(d);
    let mut pc = base_pc.clone();
    let mut salt = None;
    match what {
        "bit-length" => cfg.n = n * 2,
        "extension-degree" => {
            cfg.d = if d == 1 { 2 } else { d - 1 };
            pc = P::pc_gens(cfg.d);
        },
        "H" => pc = pc_gens_from(base_pc.h_base.g_add(&base_pc.g_base_vec[0]), base_pc.g_base_vec.clone()),
        w if w.starts_with('G') && w.len() <= 2 => {
            let k: usize = w[1..].parse().unwrap();
            if k >= d {
                return None;
            }
            let mut g = base_pc.g_base_vec.clone();
            g[k] = g[k].g_add(&base_pc.h_base);
            pc = pc_gens_from(base_pc.h_base.clone(), g);
        },
        "Gi/Hi" => {
            if !P::IS_F {
                return None;
            }
            salt = Some(77u64);
        },
        _ => unreachable!(),
    }
    let wit = Wit {
        values: (0..cfg.m).map(|j| ((pos + j) as u64) & 3).collect(),
        blindings: (0..cfg.m).map(|j| (0..cfg.d).map(|k| blinding(5000 + pos + j, k)).collect()).collect(),
        promises: vec![None; cfg.m],
        seed: None,
    };
    let built = match salt {
        Some(s) => fg::with_uniform_salt(s, || build_with_pc::<P>(&cfg, &wit, pc)).ok()?,
        None => build_with_pc::<P>(&cfg, &wit, pc).ok()?,
    };
    let ctx = contexts()[pos % 6];
    if statement_only {
        // honest proof under the batch's parameters; statement re-initialised over the disagreeing parameters with the
        // same commitments
        let batch_cfg = Cfg::new(n, m, m, d);
        let batch_built = build_cached::<P>(&batch_cfg, &wit).ok()?;
        let proof = lib_prove(&batch_built, &ctx, &mut HRng::chacha(99)).ok()?;
        let statement = P::statement(built.params.clone(), batch_built.commitments.clone(), wit.promises.clone(), None).ok()?;
        return Some(Member {
            kind: "D",
            statement,
            proof,
            ctx,
            alone_ok: true, // not required to verify alone: the batch must be refused either way
            ref_ok: true,
            mask: None,
        });
    }
    let proof = lib_prove(&built, &ctx, &mut HRng::chacha(99)).ok()?;
    let alone = lib_verify_one(&built.statement, &proof, &ctx, VerifyAction::VerifyOnly);
    Some(Member {
        kind: "D",
        statement: built.statement.clone(),
        proof,
        ctx,
        alone_ok: alone.is_ok(),
        ref_ok: true,
        mask: None,
    })
}

fn itertools_product() -> Vec<(usize, usize, usize, bool)> {
    let mut v = Vec::new();
    for m_dis in [1usize, 2] {
        for rest_kind in [0usize, 1] {
            for pos in 0..3usize {
                for st_only in [false, true] {
                    v.push((m_dis, rest_kind, pos, st_only));
                }
            }
        }
    }
    v
}

fn disagreement_cases<P: G>(tpl: Arc<Templates<P>>, long: Arc<Templates<P>>) -> Vec<Box<dyn Case>> {
    let mut cases: Vec<Box<dyn Case>> = Vec::new();
    let whats = ["bit-length", "extension-degree", "H", "G0", "G1", "G5", "Gi/Hi"];
    for what in whats {
        // small batches: every position of a batch of 3, with the disagreeing member smaller / equal / larger than the rest
        for (m_dis, rest_kind, pos, st_only) in itertools_product() {
            {
                {
                    let tpl = tpl.clone();
                    let key = format!("{}/d={}/disagree/{}/m={}/rest={}/at={}/statement-only={}", P::NAME, tpl.d, what, m_dis, KINDS[rest_kind], pos, st_only);
                    cases.push(case(key, move |_v| {
                        fg::set_intern(tpl.intern.clone());
                        let mut res = CaseResult::new("explored");
                        let dis = match disagreeing_member::<P>(what, tpl.n, tpl.d, pos, m_dis, st_only) {
                            Some(d) => d,
                            None => {
                                res.outcome = "not-constructible".into();
                                return res;
                            },
                        };
                        if !dis.alone_ok {
                            res.outcome = "member-does-not-verify-alone(skipped)".into();
                            return res;
                        }
                        let batch: Vec<&Member<P>> = (0..3).map(|i| if i == pos { &dis } else { &tpl.members[i][rest_kind] }).collect();
                        let sts: Vec<RangeStatement<P>> = batch.iter().map(|m| m.statement.clone()).collect();
                        let proofs: Vec<RangeProof<P>> = batch.iter().map(|m| P::proof_clone(&m.proof)).collect();
                        for mode in [VerifyAction::VerifyOnly, VerifyAction::RecoverAndVerify] {
                            let mut ts: Vec<Transcript> = batch.iter().map(|m| m.ctx.transcript()).collect();
                            let obs = verify_observed(&sts, &proofs, &mut ts, mode);
                            res.executions += 1;
                            *res.outcome_counter(if obs.is_ok() { "disagreement-accepted" } else { "disagreement-refused" }) += 1;
                            if !obs.is_err() {
                                res.violate(mode_name(mode), format!("batch whose member {} disagrees on {} was not refused: {}", pos, what, obs.describe()));
                            }
                        }
                        res
                    }));
                }
            }
        }
        // long batches: the disagreeing member beyond the chunk limit
        for pos in [255usize, 256, 299] {
            let long = long.clone();
            let key = format!("{}/d={}/disagree-long/{}/at={}", P::NAME, long.d, what, pos);
            cases.push(case(key, move |_v| {
                fg::set_intern(long.intern.clone());
                let mut res = CaseResult::new("explored");
                let dis = match disagreeing_member::<P>(what, long.n, long.d, pos, 1, pos % 2 == 0) {
                    Some(d) => d,
                    None => {
                        res.outcome = "not-constructible".into();
                        return res;
                    },
                };
                let batch: Vec<&Member<P>> = (0..300).map(|i| if i == pos { &dis } else { &long.members[i][0] }).collect();
                let sts: Vec<RangeStatement<P>> = batch.iter().map(|m| m.statement.clone()).collect();
                let proofs: Vec<RangeProof<P>> = batch.iter().map(|m| P::proof_clone(&m.proof)).collect();
                let mut ts: Vec<Transcript> = batch.iter().map(|m| m.ctx.transcript()).collect();
                let obs = verify_observed(&sts, &proofs, &mut ts, VerifyAction::VerifyOnly);
                res.executions += 1;
                *res.outcome_counter(if obs.is_ok() { "disagreement-accepted" } else { "disagreement-refused" }) += 1;
                if !obs.is_err() {
                    res.violate("VerifyOnly", format!("300-member batch whose member {} disagrees on {} was not refused: {}", pos, what, obs.describe()));
                }
                res
            }));
        }
    }
    cases
}

fn run_group<P: G>(rep: &mut Report) {
    let thorough = rep.tier.thorough();
    let depth = if thorough { 5 } else { 4 };
    let n = 2;
    let degrees: Vec<usize> = if thorough { vec![1, 2, 6] } else { vec![1, 2] };
    for d in degrees {
        let tpl = match honest_scope(|| templates::<P>(n, d, depth.max(3), &KINDS)) {
            Some(t) => Arc::new(t),
            None => {
                *rep.outcomes.entry("honest-precondition-failed(skipped)".into()).or_insert(0) += 1;
                continue;
            },
        };
        for p in &tpl.problems {
            rep.binding.push(("C03/member-templates".into(), p.clone()));
        }
        rep.validated += (tpl.members.len() * KINDS.len()) as u64;
        rep.explore("C03", bfs_cases(tpl.clone(), depth));
        rep.explore("C03", refusal_cases(tpl.clone()));
        rep.explore("C03", altered_copy_cases(tpl.clone()));
        let lengths: Vec<usize> = if thorough {
            vec![255, 256, 257, 511, 512, 513, 600, 1024, 1025]
        } else if d == 1 {
            vec![255, 256, 257, 511, 512, 513, 600]
        } else {
            vec![257, 513]
        };
        let maxlen = *lengths.iter().max().unwrap();
        let long = match honest_scope(|| templates::<P>(n, d, maxlen, &["V", "S", "I", "Ip", "Im", "V2"])) {
            Some(t) => Arc::new(t),
            None => {
                *rep.outcomes.entry("honest-precondition-failed(skipped)".into()).or_insert(0) += 1;
                continue;
            },
        };
        for p in &long.problems {
            rep.binding.push(("C03/long-member-templates".into(), p.clone()));
        }
        rep.explore("C03", long_cases(long.clone(), &lengths, thorough && d == 1));
        if d == 1 || thorough {
            rep.explore("C03", long_refusal_cases(long.clone()));
        }
        rep.explore("C03", disagreement_cases(tpl.clone(), long.clone()));
    }
}

pub fn run(rep: &mut Report) {
    rep.rule = "history BFS over the member-kind alphabet {V (m=1), V2 (m=2,c=2), Vc (m=1,c=4), S (seeded), Vp (valid, non-zero promise), I (r1+1), J (commitment+H), \
                Ip/Im (d1[0] +/- delta, cancel under equal weights), X2 (m=2 proof with another degree tag)} to depth 4 (thorough 5), both verifying modes; long batches \
                L in {255,256,257,511,512,513,600,(1024,1025)} x {all valid, one invalid at each listed position, cancelling pairs, \
                rotations}; an accepted member next to a copy of itself with one response altered (4 layouts); all (|t|,|s|,|p|) in {0..3}^3 and the triples one short / one long at 256 and 512; the three-run adaptive submitter of C08 \
                (two members invalid alone, shifts computed from earlier runs) on 2- and 3-batches; members that verify alone but disagree on bit length / degree / H / G_k / \
                Gi,Hi at every position of a 3-batch (smaller, equal and larger than the rest) and beyond the chunk limit; \
                oracle: Ok <=> every member verifies alone (library singleton = reference verdict), k results, i-th mask belongs to i-th triple"
        .into();
    rep.assume("members use bit length 2 (cheap); chunking, ordering and result bookkeeping do not depend on the bit length");
    run_group::<F>(rep);
    run_group::<RistrettoPoint>(rep);
    for d in [1usize, 2] {
        rep.explore("C03", adaptive_cases(d));
    }
    rep.expect_sub_outcome("adaptive-batch-rejected");
    rep.expect_sub_outcome("batch-accepted");
    rep.expect_sub_outcome("batch-rejected");
    rep.expect_sub_outcome("disagreement-refused");
    rep.expect_sub_outcome("lengths-refused");
}
