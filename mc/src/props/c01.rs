//! C01 Completeness: every honest proof verifies, in every configuration (DESIGN.md 3, C01)

use curve25519_dalek::{ristretto::RistrettoPoint, scalar::Scalar};
use serde_json::json;

use crate::{
    api::{HRng, G},
    common::*,
    engine::{case, Case, CaseResult, Report, Tier},
    fg::{self, F},
    refbp::{self, RefVerdict},
};

/// One honest run: prove, verify in all three modes, reference verifier, (on F) prover binding and zero residual
pub fn honest_case<P: G>(cfg: &Cfg, wit: &Wit, ctx: &Ctx, rng_model: &str, verbose: bool) -> CaseResult {
    fg::clear_intern();
    let mut res = CaseResult::new("accept");
    let built = match catch(|| build_cached::<P>(cfg, wit)) {
        Ok(Ok(b)) => b,
        Ok(Err(e)) => {
            res.outcome = "build-refused".into();
            res.violate("build", format!("valid statement/witness refused by constructors: {}", crate::api::err_name(&e)));
            return res;
        },
        Err(p) => {
            res.outcome = "build-panic".into();
            res.violate("build", format!("constructors panicked: {}", p));
            return res;
        },
    };
    let mut rng = HRng::from_model(rng_model);
    merlin::observe::start();
    let proved = catch(|| lib_prove(&built, ctx, &mut rng));
    let prover_trace = merlin::observe::take();
    res.executions += 1;
    let proof = match proved {
        Ok(Ok(p)) => p,
        Ok(Err(e)) => {
            res.outcome = "prover-refused".into();
            res.violate("prove", format!("prover refused a valid witness: {}", crate::api::err_name(&e)));
            return res;
        },
        Err(p) => {
            res.outcome = "prover-panic".into();
            res.violate("prove", format!("prover panicked: {}", p));
            return res;
        },
    };
    let bytes = P::to_bytes(&proof);
    if verbose {
        println!("  proof bytes ({}): {}", bytes.len(), fg::hex(&bytes[..bytes.len().min(48)]));
    }
    // library verifier, each mode, fresh identically initialised transcript
    for mode in MODES {
        let obs = verify_observed_one(&built.statement, &proof, ctx, mode);
        res.executions += 1;
        if !obs.is_ok() {
            res.outcome = "honest-rejected".into();
            res.violate(
                format!("verify/{}", mode_name(mode)),
                format!("honest proof not accepted in {}: {}", mode_name(mode), obs.describe()),
            );
            continue;
        }
        if P::IS_F && mode != tari_bulletproofs_plus::range_proof::VerifyAction::RecoverOnly {
            match obs.residuals.last() {
                Some(r) if r.is_zero() => {},
                Some(r) => res.violate(
                    format!("residual/{}", mode_name(mode)),
                    format!("accepted although the compared element is not the identity: {:?}", r),
                ),
                None => res.binding_note(format!("residual/{}", mode_name(mode)), "accepted without comparing anything with the identity (C02 / C05)"),
            }
        }
    }
    // reference verifier on the same bytes
    let rst = ref_statement(&built.statement);
    match refbp::ref_decode_allow_zero_rounds(&bytes) {
        None => res.binding_note("ref-decode", "reference decoder cannot parse the prover's output (C15 / C19)"),
        Some(rp) => {
            let mut t = ctx.transcript();
            let chk = refbp::ref_verify(&mut t, &rst, &rp);
            res.validated += 1;
            if chk.verdict != RefVerdict::Accept {
                res.binding_note(
                    "ref-verify",
                    format!("reference verifier does not accept the library's honest proof: {:?} (the library deviates self-consistently from the published protocol: C02 / C19)", chk.verdict),
                );
            }
            // challenges the library's prover drew == challenges R derives
            if let Some(ch) = &chk.challenges {
                let drawn: Vec<Scalar> = trace_challenges(&prover_trace).into_iter().map(|x| x.1).collect();
                let mut expect = vec![ch.y, ch.z];
                expect.extend(ch.rounds.iter().cloned());
                expect.push(ch.e);
                res.validated += 1;
                if drawn != expect {
                    res.binding_note(
                        "challenges",
                        format!("prover drew {} challenges that differ from the reference transcript's {} (C04 / C19)", drawn.len(), expect.len()),
                    );
                }
            }
        },
    }
    res.sample = Some(json!({"cfg": cfg.key(), "wit": wit.key(), "ctx": ctx.key(), "rng": rng_model, "group": P::NAME, "proof_len": bytes.len()}));
    res
}

/// On F: read the nonces back from the proof and let the reference prover rebuild the identical proof
pub fn prover_binding_f(cfg: &Cfg, wit: &Wit, ctx: &Ctx, rng_model: &str, res: &mut CaseResult) {
    fg::clear_intern();
    let built = match build_cached::<F>(cfg, wit) {
        Ok(b) => b,
        Err(_) => return,
    };
    let mut rng = HRng::from_model(rng_model);
    let proof = match catch(|| lib_prove(&built, ctx, &mut rng)) {
        Ok(Ok(p)) => p,
        _ => return,
    };
    res.executions += 1;
    let rst = ref_statement(&built.statement);
    let rp = match ref_proof_of(&proof) {
        Some(p) => p,
        None => return,
    };
    let mut t = ctx.transcript();
    let ch = refbp::ref_challenges(&mut t, &rst, &rp);
    let nonces = match read_nonces_f(&rst, &rp, &ch) {
        Some(n) => n,
        None => {
            res.machinery_error("could not read nonces back from an honest proof over F");
            return;
        },
    };
    let digits = match refbp::honest_digits(cfg.n, &wit.values, &wit.promises) {
        Some(d) => d,
        None => return,
    };
    let mut t2 = ctx.transcript();
    let out = refbp::ref_prove(&mut t2, &rst, &digits, &wit.blindings, &nonces);
    res.validated += 1;
    if out.proof != rp {
        let mut diff = Vec::new();
        if out.proof.a != rp.a {
            diff.push("A");
        }
        if out.proof.l != rp.l {
            diff.push("L");
        }
        if out.proof.r != rp.r {
            diff.push("R");
        }
        if out.proof.a1 != rp.a1 {
            diff.push("A1");
        }
        if out.proof.b != rp.b {
            diff.push("B");
        }
        if out.proof.r1 != rp.r1 {
            diff.push("r1");
        }
        if out.proof.s1 != rp.s1 {
            diff.push("s1");
        }
        if out.proof.d1 != rp.d1 {
            diff.push("d1");
        }
        res.binding_note(
            "prover-binding",
            format!("reference prover fed with the read-back nonces does not reproduce the library's proof; differing elements: {:?} (C02 / C19)", diff),
        );
    }
}

pub fn positions(m: usize, all: bool) -> Vec<usize> {
    if all || m <= 4 {
        (0..m).collect()
    } else {
        vec![0, m / 2, m - 1]
    }
}

/// Witness deviations for a configuration (every single deviation at every position of the tier)
pub fn witness_cases(cfg: &Cfg, tier: Tier) -> Vec<(String, Wit)> {
    let base = Wit::default_for(cfg);
    let mut out = vec![("default".to_string(), base.clone())];
    let pos = positions(cfg.m, tier.thorough());
    let max = cfg.max_value();
    let ell_minus_1 = -Scalar::ONE;
    for &j in &pos {
        for v in values_alphabet(cfg.n) {
            let mut w = base.clone();
            w.values[j] = v;
            out.push((format!("value[{}]={}", j, v), w));
        }
        let vj = base.values[j];
        for p in promises_valid(vj) {
            if p.is_none() {
                continue;
            }
            let mut w = base.clone();
            w.promises[j] = p;
            out.push((format!("promise[{}]={:?}@v={}", j, p, vj), w));
        }
        // boundary pairs: value == promise at both ends of the range, full-range value with zero promise
        for (v, p) in [(max, Some(max)), (max, Some(0)), (0, Some(0)), (max, Some(max - max.min(1)))] {
            let mut w = base.clone();
            w.values[j] = v;
            w.promises[j] = p;
            out.push((format!("value[{}]={},promise={:?}", j, v, p), w));
        }
        for k in [0, cfg.d - 1] {
            for (name, b) in [("0", Scalar::ZERO), ("1", Scalar::ONE), ("l-1", ell_minus_1)] {
                let mut w = base.clone();
                w.blindings[j][k] = b;
                out.push((format!("blinding[{}][{}]={}", j, k, name), w));
            }
            if cfg.d == 1 {
                break;
            }
        }
        // identity commitment: value 0 with an all-zero blinding vector
        let mut w = base.clone();
        w.values[j] = 0;
        w.blindings[j] = vec![Scalar::ZERO; cfg.d];
        out.push((format!("identity-commitment[{}]", j), w));
    }
    if cfg.m == 1 {
        for v in [base.values[0], 0, max] {
            for s in 0..2u64 {
                let mut w = base.clone();
                w.values[0] = v;
                w.seed = Some(seed_scalar(s));
                out.push((format!("seed{},value={}", s, v), w));
            }
        }
        let mut w = base.clone();
        w.seed = Some(seed_scalar(0));
        w.promises[0] = Some(base.values[0]);
        out.push(("seed0,promise=value".to_string(), w));
        // the corners of the scalar field are seeds like any other
        for (name, sd) in [("zero", Scalar::ZERO), ("one", Scalar::ONE), ("l-1", -Scalar::ONE)] {
            let mut w = base.clone();
            w.seed = Some(sd);
            out.push((format!("seed={}", name), w));
        }
    }
    // full product of values x promises for tiny spaces
    if cfg.big_n() <= 4 && cfg.c == cfg.m && cfg.d == 1 {
        let vals = values_alphabet(cfg.n);
        let mut choices: Vec<Vec<(u64, Option<u64>)>> = Vec::new();
        for _ in 0..cfg.m {
            let mut c = Vec::new();
            for &v in &vals {
                for p in promises_valid(v) {
                    c.push((v, p));
                }
            }
            choices.push(c);
        }
        let mut idx = vec![0usize; cfg.m];
        loop {
            let mut w = base.clone();
            let mut name = String::from("product");
            for j in 0..cfg.m {
                let (v, p) = choices[j][idx[j]];
                w.values[j] = v;
                w.promises[j] = p;
                name.push_str(&format!(":{}/{:?}", v, p));
            }
            out.push((name, w));
            let mut j = 0;
            loop {
                idx[j] += 1;
                if idx[j] < choices[j].len() {
                    break;
                }
                idx[j] = 0;
                j += 1;
                if j == cfg.m {
                    break;
                }
            }
            if j == cfg.m {
                break;
            }
        }
    }
    // dedup by witness key
    let mut seen = std::collections::HashSet::new();
    out.retain(|(_, w)| seen.insert(w.key()));
    out
}

/// Two honest proofs verified together, in both orders (completeness does not depend on what else is in the batch)
fn honest_pair_case<P: G>(cfg: Cfg) -> Box<dyn Case> {
    case(format!("{}/{}/honest-pair-in-batch", P::NAME, cfg.key()), move |_v| {
        fg::clear_intern();
        let mut res = CaseResult::new("accept");
        let wit = Wit::default_for(&cfg);
        let built = match build_cached::<P>(&cfg, &wit) {
            Ok(b) => b,
            Err(_) => return res,
        };
        let proof = match lib_prove(&built, &CTX_A, &mut HRng::chacha(90)) {
            Ok(p) => p,
            Err(_) => return res, // the single-proof cases report prover refusals
        };
        let comp_cfg = Cfg::new(cfg.n, 1, 1, cfg.d);
        let mut cw = Wit::default_for(&comp_cfg);
        cw.blindings[0][0] = blinding(77, 0);
        let comp = build_cached::<P>(&comp_cfg, &cw).honest();
        let comp_proof = match lib_prove(&comp, &contexts()[2], &mut HRng::chacha(91)) {
            Ok(p) => p,
            Err(_) => return res,
        };
        res.executions += 2;
        for first in [true, false] {
            let (sts, proofs, ctxs) = if first {
                (vec![built.statement.clone(), comp.statement.clone()], vec![P::proof_clone(&proof), P::proof_clone(&comp_proof)], vec![CTX_A, contexts()[2]])
            } else {
                (vec![comp.statement.clone(), built.statement.clone()], vec![P::proof_clone(&comp_proof), P::proof_clone(&proof)], vec![contexts()[2], CTX_A])
            };
            for mode in MODES {
                let mut ts: Vec<merlin::Transcript> = ctxs.iter().map(|c| c.transcript()).collect();
                let obs = verify_observed(&sts, &proofs, &mut ts, mode);
                res.executions += 1;
                if !obs.is_ok() {
                    res.outcome = "honest-rejected".into();
                    res.violate(
                        format!("first={}/{}", first, mode_name(mode)),
                        format!("two honest proofs (aggregation {} and 1) verified together are not accepted in {}: {}", cfg.m, mode_name(mode), obs.describe()),
                    );
                }
            }
        }
        // the same pair with both statements over clones of ONE parameter object (a wallet builds its parameters once): the
        // single-commitment statement over the pair's parameters
        if cfg.m > 1 {
            let mut sw = Wit::default_for(&comp_cfg);
            sw.blindings[0][0] = blinding(78, 0);
            let shared_cs = commitments_for(built.params.pc_gens(), &sw);
            if let Ok(cs) = shared_cs {
                if let Ok(st1) = P::statement(built.params.clone(), cs.clone(), sw.promises.clone(), None) {
                    let w1 = match witness_for(&sw) {
                        Ok(w) => w,
                        Err(_) => return res,
                    };
                    let mut t = contexts()[2].transcript();
                    if let Ok(Ok(p1)) = catch(|| P::prove(&mut t, &st1, &w1, &mut HRng::chacha(92))) {
                        for first in [true, false] {
                            let (sts, proofs, ctxs) = if first {
                                (vec![built.statement.clone(), st1.clone()], vec![P::proof_clone(&proof), P::proof_clone(&p1)], vec![CTX_A, contexts()[2]])
                            } else {
                                (vec![st1.clone(), built.statement.clone()], vec![P::proof_clone(&p1), P::proof_clone(&proof)], vec![contexts()[2], CTX_A])
                            };
                            let mut ts: Vec<merlin::Transcript> = ctxs.iter().map(|c| c.transcript()).collect();
                            let obs = verify_observed(&sts, &proofs, &mut ts, tari_bulletproofs_plus::range_proof::VerifyAction::VerifyOnly);
                            res.executions += 1;
                            if !obs.is_ok() {
                                res.outcome = "honest-rejected".into();
                                res.violate(
                                    format!("shared-parameters/first={}", first),
                                    format!("two honest proofs (aggregation {} and 1) over clones of one parameter object verified together are not accepted: {}", cfg.m, obs.describe()),
                                );
                            }
                        }
                    }
                }
            }
        }
        res
    })
}

fn cases_for<P: G>(tier: Tier) -> Vec<Box<dyn Case>> {
    let mut cases: Vec<Box<dyn Case>> = Vec::new();
    let mut lat = lattice(tier.thorough());
    lat.extend(lattice_large_capacity());
    for cfg in lat {
        for (name, wit) in witness_cases(&cfg, tier) {
            let key = format!("{}/{}/{}", P::NAME, cfg.key(), name);
            let w = wit.clone();
            cases.push(case(key, move |v| {
                let mut r = honest_case::<P>(&cfg, &w, &CTX_A, "chacha-a", v);
                if P::IS_F {
                    prover_binding_f(&cfg, &w, &CTX_A, "chacha-a", &mut r);
                }
                r.transitions = 1;
                r
            }));
        }
        cases.push(honest_pair_case::<P>(cfg));
        let base = Wit::default_for(&cfg);
        for ctx in contexts().into_iter().skip(1) {
            let key = format!("{}/{}/ctx={}", P::NAME, cfg.key(), ctx.key());
            let w = base.clone();
            cases.push(case(key, move |v| honest_case::<P>(&cfg, &w, &ctx, "chacha-a", v)));
        }
        for rng in RNG_MODELS.iter().skip(1) {
            for seeded in [false, true] {
                if seeded && cfg.m != 1 {
                    continue;
                }
                let key = format!("{}/{}/rng={},seeded={}", P::NAME, cfg.key(), rng, seeded);
                let mut w = base.clone();
                if seeded {
                    w.seed = Some(seed_scalar(1));
                }
                cases.push(case(key, move |v| {
                    let mut r = honest_case::<P>(&cfg, &w, &CTX_A, rng, v);
                    if P::IS_F {
                        prover_binding_f(&cfg, &w, &CTX_A, rng, &mut r);
                    }
                    r
                }));
            }
        }
    }
    cases
}

/// Honest proofs submitted together beyond the chunk limit: 257 / 513 members, one of them an aggregate of two (first, second,
/// at 255 / 256, last), capacities equal to or above the aggregate. Every honest proof verifies in such a batch too.
fn long_honest_batch_case<P: G>(len: usize, big_at: usize, spare_capacity: bool) -> Box<dyn Case> {
    case(format!("{}/long-honest-batch/len={},aggregate-of-two-at={},spare-capacity={}", P::NAME, len, big_at, spare_capacity), move |_v| {
        fg::clear_intern();
        let mut res = CaseResult::new("accept");
        let cap = if spare_capacity { 4 } else { 1 };
        let mut sts = Vec::new();
        let mut proofs = Vec::new();
        let mut ctxs = Vec::new();
        for pos in 0..len {
            let cfg = if pos == big_at { Cfg::new(2, 2, 2 * cap, 1) } else { Cfg::new(2, 1, cap, 1) };
            let mut wit = Wit::default_for(&cfg);
            wit.values[0] = (pos % 4) as u64;
            if cfg.m == 1 && pos % 5 == 0 {
                wit.seed = Some(seed_scalar(pos as u64));
            }
            let built = build_cached::<P>(&cfg, &wit).honest();
            let ctx = contexts()[pos % 6];
            match catch(|| lib_prove(&built, &ctx, &mut HRng::chacha(pos as u64))) {
                Ok(Ok(p)) => proofs.push(p),
                other => {
                    res.outcome = "prover-failed".into();
                    res.violate("prove", format!("honest prove failed for member {}: {:?}", pos, other.map(|r| r.map(|_| ()).map_err(|e| crate::api::err_name(&e)))));
                    return res;
                },
            }
            sts.push(built.statement.clone());
            ctxs.push(ctx);
        }
        for mode in MODES {
            let mut ts: Vec<merlin::Transcript> = ctxs.iter().map(|c| c.transcript()).collect();
            let obs = verify_observed(&sts, &proofs, &mut ts, mode);
            res.executions += 1;
            res.validated += 1;
            res.transitions += 1;
            if !obs.is_ok() {
                res.outcome = "reject".into();
                res.violate(mode_name(mode), format!("a batch of {} honest proofs (an aggregate of two at position {}) is not accepted in {}: {}", len, big_at, mode_name(mode), obs.describe()));
            }
        }
        res
    })
}

pub fn run(rep: &mut Report) {
    rep.rule = "configuration lattice x {default witness; every single deviation of one value over W(n), one promise over \
                the valid alphabet, one blinding component over {0,1,l-1}, identity commitment, seed presence, transcript \
                context, RNG model}; full value x promise product when bits*aggregation <= 4; each case = prove + verify in 3 \
                modes + reference verifier + (F) prover binding; a case is distinct by its canonical key (all choices); honest batches of 257 / 513 members holding one aggregate of two at the first, second, chunk-boundary and last positions, with and without spare capacity"
        .into();
    rep.assume("values above 4 bits: boundary alphabet {0,1,2^(n-1)-1,2^(n-1),2^n-2,2^n-1}, not all 2^n values");
    rep.assume("reference model R (mc/src/refbp.rs) is the protocol of the paper / RFC-0181; it is bound to the code on every case");
    rep.explore("C01", cases_for::<F>(rep.tier));
    rep.explore("C01", cases_for::<RistrettoPoint>(rep.tier));
    let mut long: Vec<Box<dyn Case>> = Vec::new();
    for (len, big_at) in [(257usize, 0usize), (257, 1), (257, 255), (257, 256), (513, 0), (513, 512), (513, 300)] {
        for spare in [false, true] {
            if len == 513 && spare && !rep.tier.thorough() {
                continue;
            }
            long.push(long_honest_batch_case::<F>(len, big_at, spare));
            if len <= 257 || rep.tier.thorough() {
                long.push(long_honest_batch_case::<RistrettoPoint>(len, big_at, spare));
            }
        }
    }
    rep.explore("C01", long);
    rep.expect_outcome("accept");
}
