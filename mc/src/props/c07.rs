//! C07 Minimum-value promises mean value >= promise, and bind the proof (DESIGN.md 3, C07)

use curve25519_dalek::ristretto::RistrettoPoint;
use serde_json::json;
use tari_bulletproofs_plus::range_proof::VerifyAction;

use crate::{
    api::{HRng, G},
    common::*,
    engine::{case, Case, CaseResult, Report, Tier},
    fg::{self, F},
    props::{c01::positions, c02},
    refbp,
};

fn norm(p: Option<u64>) -> u64 {
    p.unwrap_or(0)
}

fn promise_case<P: G>(cfg: Cfg, j: usize, tier: Tier, variant: &'static str) -> Box<dyn Case> {
    let top = variant == "max";
    case(format!("{}/{}/position={}/value={}", P::NAME, cfg.key(), j, variant), move |_v| {
        fg::clear_intern();
        let _ = tier;
        let mut res = CaseResult::new("explored");
        let max = cfg.max_value();
        let mut base = Wit::default_for(&cfg);
        // a value with room on both sides where the bit length allows; or the largest value of the range
        if cfg.n >= 2 && (base.values[j] < 2 || base.values[j] > max - 2) {
            base.values[j] = max / 2 + 1;
        }
        if top {
            base.values[j] = max;
        }
        if variant == "zero" {
            base.values[j] = 0;
        }
        if variant == "twin-commitments" {
            // the opening at position j-1 is the same as at position j (equal commitments), under ANOTHER promise: promises
            // belong to positions, not to commitment values
            let t = j - 1;
            base.values[t] = base.values[j];
            base.blindings[t] = base.blindings[j].clone();
            base.promises[t] = Some(if base.values[j] >= 2 { base.values[j] - 1 } else { 0 });
        }
        let vj = base.values[j];
        let mut created: Vec<Option<u64>> = vec![None, Some(0), Some(1), Some(vj.saturating_sub(1)), Some(vj)];
        created.retain(|p| norm(*p) <= vj);
        created.dedup();
        let mut seen = std::collections::BTreeSet::new();
        created.retain(|p| seen.insert(*p));
        // verdicts of the promise-free twin batches (layout [triple, companion] and [companion, triple]), computed once
        let mut twin_memo: [Option<bool>; 2] = [None, None];
        let mut promise_free_memo: Option<bool> = None;
        let mut other_capacity_memo: Option<bool> = None;
        for p in created {
            let mut wit = base.clone();
            wit.promises[j] = p;
            let built = build_cached::<P>(&cfg, &wit).honest();
            let proof = match catch(|| lib_prove(&built, &CTX_A, &mut HRng::chacha(41))) {
                Ok(Ok(pr)) => pr,
                other => {
                    res.violate(format!("create/p={:?}", p), format!("prover refused promise {:?} <= value {}: {:?}", p, vj, other.map(|r| r.map(|_| ()).map_err(|e| crate::api::err_name(&e)))));
                    continue;
                },
            };
            res.executions += 1;
            let pv = norm(p);
            // a proof that is not accepted under its own, identical statement is C01's finding: accept-expectations are
            // then skipped (reject-expectations still hold)
            let base_ok = verify_observed_one(&built.statement, &proof, &CTX_A, VerifyAction::VerifyOnly).is_ok();
            if !base_ok {
                *res.outcome_counter("own-statement-not-accepted(accept-expectations skipped)") += 1;
                // ... unless the promise is what makes the difference: the same witness proved and verified WITHOUT a promise
                // at position j is accepted, so it is this (fitting, satisfied) promise the verifier does not honour
                let promise_free_ok = *promise_free_memo.get_or_insert_with(|| {
                    let mut w0 = base.clone();
                    w0.promises[j] = None;
                    match build_cached::<P>(&cfg, &w0) {
                        Ok(b0) => match catch(|| lib_prove(&b0, &CTX_A, &mut HRng::chacha(41))) {
                            Ok(Ok(p0)) => verify_observed_one(&b0.statement, &p0, &CTX_A, VerifyAction::VerifyOnly).is_ok(),
                            _ => false,
                        },
                        Err(_) => false,
                    }
                });
                if promise_free_ok && p.is_some() {
                    res.violate(
                        format!("own-statement/p={:?}", p),
                        format!("a proof created under the satisfied promise {:?} (value {}, {} bits) is not accepted under that promise, although the same witness without a promise is proved and accepted", p, vj, cfg.n),
                    );
                }
            }
            // the promise vector is part of the statement, the generator capacity is not: a promise-bearing proof is accepted
            // under the same promises by a verifier whose parameters have another capacity (differential: its promise-free twin is)
            if base_ok && pv > 0 {
                let c2 = if cfg.c * 2 <= 32 { cfg.c * 2 } else { cfg.m };
                if c2 != cfg.c && c2 >= cfg.m {
                    let twin_ok = *other_capacity_memo.get_or_insert_with(|| {
                        let mut w0 = base.clone();
                        w0.promises[j] = None;
                        let cfg2 = Cfg::new(cfg.n, cfg.m, c2, cfg.d);
                        match (build_cached::<P>(&cfg, &w0), build_cached::<P>(&cfg2, &w0)) {
                            (Ok(b0), Ok(b2)) => match catch(|| lib_prove(&b0, &CTX_A, &mut HRng::chacha(41))) {
                                Ok(Ok(p0)) => verify_observed_one(&b2.statement, &p0, &CTX_A, VerifyAction::VerifyOnly).is_ok(),
                                _ => false,
                            },
                            _ => false,
                        }
                    });
                    if twin_ok {
                        let cfg2 = Cfg::new(cfg.n, cfg.m, c2, cfg.d);
                        if let Ok(b2) = build_cached::<P>(&cfg2, &wit) {
                            let obs = verify_observed_one(&b2.statement, &proof, &CTX_A, VerifyAction::VerifyOnly);
                            res.executions += 1;
                            res.validated += 1;
                            *res.outcome_counter("other-capacity-verifier") += 1;
                            if !obs.is_ok() {
                                res.violate(
                                    format!("other-capacity/p={:?}", p),
                                    format!("a proof created under promise {:?} with capacity {} is not accepted under the same promises by a verifier with capacity {} (its promise-free twin is): {}", p, cfg.c, c2, obs.describe()),
                                );
                            }
                        }
                    }
                }
            }
            let mut subs: Vec<Option<u64>> = vec![
                None,
                Some(0),
                Some(1),
                Some(pv.wrapping_sub(1)),
                Some(pv.saturating_add(1)),
                Some(vj),
                Some(vj.saturating_add(1)),
                Some(max),
                Some(u64::MAX),
            ];
            if cfg.n < 64 {
                subs.push(Some(1u64 << cfg.n));
            }
            let mut seen2 = std::collections::BTreeSet::new();
            subs.retain(|p| seen2.insert(*p));
            for p2 in subs {
                res.transitions += 1;
                let mut ps = wit.promises.clone();
                ps[j] = p2;
                let st = match restate(&built, built.commitments.clone(), ps, None) {
                    Ok(s) => s,
                    Err(_) => continue,
                };
                let expect_ok = norm(p2) == pv;
                for mode in [VerifyAction::VerifyOnly, VerifyAction::RecoverAndVerify] {
                    let obs = verify_observed_one(&st, &proof, &CTX_A, mode);
                    res.executions += 1;
                    res.validated += 1;
                    *res.outcome_counter(&format!("substitution:{}", obs.class())) += 1;
                    if expect_ok && !base_ok && obs.is_err() {
                        continue;
                    }
                    if obs.panic.is_some() || obs.is_ok() != expect_ok {
                        res.violate(
                            format!("created={:?}/verified={:?}/{}", p, p2, mode_name(mode)),
                            format!(
                                "proof created under promise {:?} (value {}) verified under {:?}: {} (expected {})",
                                p,
                                vj,
                                p2,
                                obs.describe(),
                                if expect_ok { "accept" } else { "error" }
                            ),
                        );
                    }
                    // transcript-side half: the verifier's transcript carries the substituted promise (absent as 0)
                    if mode == VerifyAction::VerifyOnly && (cfg.n >= 64 || norm(p2) >> cfg.n == 0) {
                        let absorbed: Vec<Vec<u8>> = obs
                            .trace
                            .iter()
                            .filter_map(|e| match &e.op {
                                merlin::observe::Op::Append { label, data } if label == b"vi - minimum_value" => Some(data.clone()),
                                _ => None,
                            })
                            .collect();
                        let expect: Vec<Vec<u8>> = st.minimum_value_promises.iter().map(|p| norm(*p).to_le_bytes().to_vec()).collect();
                        if absorbed != expect {
                            res.binding_note(
                                format!("created={:?}/verified={:?}/transcript", p, p2),
                                format!("verifier transcript absorbed promises {:?}, expected {:?} (C04 / C19)", absorbed, expect),
                            );
                        }
                    }
                }
                // a promise that does not fit the bit length is refused whatever else holds
                if cfg.n < 64 && norm(p2) >> cfg.n != 0 && expect_ok {
                    res.machinery_error("unreachable: out-of-range promise equal to an in-range one");
                }
            }
            // the same output twice in one batch: once under the promises it was created under, once under a substituted
            // promise. The substituted member is not accepted alone, so the batch is not accepted in either order.
            if base_ok {
                let mut alts: Vec<Option<u64>> = vec![None, Some(pv.saturating_add(1)), Some(pv.wrapping_sub(1)), Some(max)];
                alts.retain(|p2| norm(*p2) != pv && (cfg.n >= 64 || norm(*p2) >> cfg.n == 0));
                alts.dedup();
                for p2 in alts {
                    let mut ps = wit.promises.clone();
                    ps[j] = p2;
                    let st2 = match restate(&built, built.commitments.clone(), ps, None) {
                        Ok(s) => s,
                        Err(_) => continue,
                    };
                    for honest_first in [true, false] {
                        res.transitions += 1;
                        let sts = if honest_first { vec![built.statement.clone(), st2.clone()] } else { vec![st2.clone(), built.statement.clone()] };
                        let proofs = vec![P::proof_clone(&proof), P::proof_clone(&proof)];
                        for mode in [VerifyAction::VerifyOnly, VerifyAction::RecoverAndVerify] {
                            let mut ts = vec![CTX_A.transcript(), CTX_A.transcript()];
                            let obs = verify_observed(&sts, &proofs, &mut ts, mode);
                            res.executions += 1;
                            res.validated += 1;
                            *res.outcome_counter(&format!("same-output-twice:{}", obs.class())) += 1;
                            if !obs.is_err() {
                                res.violate(
                                    format!("created={:?}/same-proof-also-under={:?}/honest-first={}/{}", p, p2, honest_first, mode_name(mode)),
                                    format!("a batch holding the same proof under promise {:?} (created) and under {:?} was not refused: {}", p, p2, obs.describe()),
                                );
                            }
                        }
                    }
                }
            }
            // the same triple inside a batch, before and after a companion with / without promises
            {
                let comp_cfg = Cfg::new(cfg.n, 1, 1, cfg.d);
                for comp_promise in [None, Some(1u64)] {
                    let mut cw = Wit::default_for(&comp_cfg);
                    if cfg.n >= 2 {
                        cw.values[0] = 2;
                    } else {
                        cw.values[0] = 1;
                    }
                    cw.promises[0] = comp_promise;
                    let comp = build_cached::<P>(&comp_cfg, &cw).honest();
                    let comp_proof = lib_prove_honest(&comp, &CTX_A, &mut HRng::chacha(43));
                    // precondition (C01 / C03): the same two triples verify together when neither carries a promise-specific
                    // feature, i.e. the companion alone and the triple alone are accepted
                    let comp_ok = verify_observed_one(&comp.statement, &comp_proof, &CTX_A, VerifyAction::VerifyOnly).is_ok();
                    if !base_ok || !comp_ok {
                        continue;
                    }
                    // differential twin: the same configuration and companion without any promise; a batch layout that is
                    // rejected even then is C03's finding
                    let twin_ok = |first: bool| -> bool {
                        let mut tw = wit.clone();
                        tw.promises = vec![None; cfg.m];
                        let mut cw2 = cw.clone();
                        cw2.promises[0] = None;
                        let (tb, cb) = match (build_cached::<P>(&cfg, &tw), build_cached::<P>(&comp_cfg, &cw2)) {
                            (Ok(a), Ok(b)) => (a, b),
                            _ => return false,
                        };
                        let (tp, cp) = match (lib_prove(&tb, &CTX_A, &mut HRng::chacha(41)), lib_prove(&cb, &CTX_A, &mut HRng::chacha(43))) {
                            (Ok(a), Ok(b)) => (a, b),
                            _ => return false,
                        };
                        let (sts, proofs) = if first {
                            (vec![tb.statement.clone(), cb.statement.clone()], vec![tp, cp])
                        } else {
                            (vec![cb.statement.clone(), tb.statement.clone()], vec![cp, tp])
                        };
                        let mut ts = vec![CTX_A.transcript(), CTX_A.transcript()];
                        verify_observed(&sts, &proofs, &mut ts, VerifyAction::VerifyOnly).is_ok()
                    };
                    for first in [true, false] {
                        let memo = &mut twin_memo[first as usize];
                        if memo.is_none() {
                            *memo = Some(twin_ok(first));
                        }
                        if *memo != Some(true) {
                            *res.outcome_counter("in-batch-twin-not-accepted(skipped)") += 1;
                            continue;
                        }
                        let (sts, proofs) = if first {
                            (vec![built.statement.clone(), comp.statement.clone()], vec![P::proof_clone(&proof), P::proof_clone(&comp_proof)])
                        } else {
                            (vec![comp.statement.clone(), built.statement.clone()], vec![P::proof_clone(&comp_proof), P::proof_clone(&proof)])
                        };
                        let mut ts = vec![CTX_A.transcript(), CTX_A.transcript()];
                        let obs = verify_observed(&sts, &proofs, &mut ts, VerifyAction::VerifyOnly);
                        res.executions += 1;
                        res.validated += 1;
                        *res.outcome_counter(&format!("in-batch:{}", obs.class())) += 1;
                        if !obs.is_ok() {
                            res.violate(
                                format!("created={:?}/in-batch(first={},companion-promise={:?})", p, first, comp_promise),
                                format!("valid triple rejected inside a batch: {}", obs.describe()),
                            );
                        }
                    }
                }
            }
            // verifier-side half over F: the value-generator coordinate of the compared element is the reference's
            if P::IS_F {
                if let Some(rp) = ref_proof_of(&proof) {
                    if !rp.l.is_empty() {
                        let cfg_f = cfg;
                        let built_f = build_cached::<F>(&cfg_f, &wit).honest();
                        for p2 in [p, Some(pv.saturating_add(1)), None] {
                            let mut ps = wit.promises.clone();
                            ps[j] = p2;
                            if cfg.n < 64 && norm(p2) >> cfg.n != 0 {
                                continue;
                            }
                            let st = restate(&built_f, built_f.commitments.clone(), ps, None).unwrap();
                            // mechanism-level observation: noted, the verdict of this property is the acceptance matrix
                            let mut tmp = CaseResult::new("");
                            c02::coeff_identity(&st, &rp, &CTX_A, &format!("created={:?}/verified={:?}", p, p2), &mut tmp);
                            res.executions += tmp.executions;
                            res.validated += tmp.validated;
                            for (k, v) in tmp.counters {
                                *res.outcome_counter(&k) += v;
                            }
                            for (k, w) in tmp.violations {
                                res.binding_note(k, format!("{} (C02)", w));
                            }
                            res.machinery.extend(tmp.machinery);
                        }
                    }
                }
            }
        }
        // a promise that does not fit the bit length is refused even when the proof is algebraically valid for it: the
        // reference prover (no range checks) proves value = 2^n + 3 under promise 2^n (difference 3 is in range)
        if cfg.n < 64 && cfg.n >= 2 && cfg.rounds() >= 1 {
            let two_n = 1u64 << cfg.n;
            let mut w = base.clone();
            w.values[j] = two_n + 3;
            w.promises[j] = Some(two_n);
            let params = params_cached::<P>(&cfg);
            let commitments = commitments_for(params.pc_gens(), &w).unwrap();
            if let Ok(st) = P::statement(params.clone(), commitments, w.promises.clone(), None) {
                let rst = ref_statement(&st);
                let nonces = refbp::Nonces {
                    alpha: (0..cfg.d).map(|k| wide_scalar("pa", k as u64, 0)).collect(),
                    dl: (0..cfg.rounds()).map(|r| (0..cfg.d).map(|k| wide_scalar("pl", r as u64, k as u64)).collect()).collect(),
                    dr: (0..cfg.rounds()).map(|r| (0..cfg.d).map(|k| wide_scalar("pr", r as u64, k as u64)).collect()).collect(),
                    delta: (0..cfg.d).map(|k| wide_scalar("pd", k as u64, 0)).collect(),
                    eta: (0..cfg.d).map(|k| wide_scalar("pe", k as u64, 0)).collect(),
                    r: wide_scalar("pr1", 0, 0),
                    s: wide_scalar("ps1", 0, 0),
                };
                if let Some(digits) = refbp::honest_digits(cfg.n, &w.values, &w.promises) {
                    let mut t = CTX_A.transcript();
                    let out = refbp::ref_prove(&mut t, &rst, &digits, &w.blindings, &nonces);
                    if let Ok(proof) = P::from_bytes(&refbp::ref_encode(&out.proof)) {
                        // alone, and as the first / last member of a batch with an honest companion
                        let comp_cfg = Cfg::new(cfg.n, 1, 1, cfg.d);
                        let cw = Wit::default_for(&comp_cfg);
                        let comp = build_cached::<P>(&comp_cfg, &cw).honest();
                        let comp_proof = lib_prove(&comp, &CTX_A, &mut HRng::chacha(44));
                        let mut layouts: Vec<(String, Vec<tari_bulletproofs_plus::range_statement::RangeStatement<P>>, Vec<tari_bulletproofs_plus::range_proof::RangeProof<P>>)> =
                            vec![("alone".into(), vec![st.clone()], vec![P::proof_clone(&proof)])];
                        if let Ok(cp) = &comp_proof {
                            layouts.push(("first-in-batch".into(), vec![st.clone(), comp.statement.clone()], vec![P::proof_clone(&proof), P::proof_clone(cp)]));
                            layouts.push(("last-in-batch".into(), vec![comp.statement.clone(), st.clone()], vec![P::proof_clone(cp), P::proof_clone(&proof)]));
                        }
                        for (name, sts, proofs) in layouts {
                            for mode in MODES {
                                let mut ts: Vec<merlin::Transcript> = sts.iter().map(|_| CTX_A.transcript()).collect();
                                let obs = verify_observed(&sts, &proofs, &mut ts, mode);
                                res.executions += 1;
                                res.validated += 1;
                                *res.outcome_counter(&format!("oversized-promise:{}", obs.class())) += 1;
                                if !obs.is_err() {
                                    res.violate(
                                        format!("oversized-promise/{}/{}", name, mode_name(mode)),
                                        format!("promise 2^{} (does not fit in {} bits) was not refused ({}, {}): {}", cfg.n, cfg.n, name, mode_name(mode), obs.describe()),
                                    );
                                }
                            }
                        }
                    }
                }
            }
        }
        // prover attempts around the boundary
        for (p, expect_ok) in [(vj, true), (vj.saturating_add(1), vj == u64::MAX)] {
            let mut wit = base.clone();
            wit.promises[j] = Some(p);
            let built = build_cached::<P>(&cfg, &wit).honest();
            // both entry points (the caller's generator / the operating system's)
            for entry in ["prove", "prove-os"] {
                let r = catch(|| {
                    if entry == "prove" {
                        lib_prove(&built, &CTX_A, &mut HRng::chacha(42))
                    } else {
                        let mut t = CTX_A.transcript();
                        P::prove_os(&mut t, &built.statement, &built.witness)
                    }
                });
                res.executions += 1;
                match r {
                    Err(pn) => res.violate(format!("{}/p={}", entry, p), format!("prover panicked: {}", pn)),
                    Ok(r) => {
                        *res.outcome_counter(if r.is_ok() { "prover:proof" } else { "prover:refused" }) += 1;
                        if r.is_ok() != expect_ok {
                            res.violate(format!("{}/p={}", entry, p), format!("prover ({}) with value {} and promise {}: returned proof = {}", entry, vj, p, r.is_ok()));
                        }
                    },
                }
            }
        }
        let _ = refbp::ref_nonce;
        res.sample = Some(json!({"cfg": cfg.key(), "position": j, "value": vj}));
        res
    })
}

pub fn run(rep: &mut Report) {
    rep.rule = "configuration lattice x position j x proofs created under promise in {None,0,1,v-1,v} x verification under every single \
                substitution in {None,0,1,p-1,p+1,v,v+1,2^n-1,2^n,u64::MAX}; oracle: accepted <=> value-wise equal (None = 0), out-of-range \
                promise => error; prover accepts v==p and refuses v<p through both entry points (values mid-range, top of the range, 0 at the last position, and the last two positions holding the same commitment under different promises); a promise-bearing proof is accepted under the same promises by a verifier of another capacity whenever its promise-free twin is; over F the compared element's coefficients equal the reference's \
                (verifier-side half) and the merlin trace carries the promise vector (transcript-side half) -- both recorded as reference-binding \
                notes (mechanisms of C02 / C04), the verdict is the acceptance matrix; the same triples are also verified inside 2-batches, and next to themselves under a substituted promise"
        .into();
    let tier = rep.tier;
    let mut cases: Vec<Box<dyn Case>> = Vec::new();
    // the second (nodebug) pass repeats the exploration on the small lattice: what differs between the two builds is the
    // prover's and verifier's guards, not the configuration
    let lat = match (crate::engine::profile_pass().is_some(), tier.thorough()) {
        (true, false) => lattice_small(),
        (true, true) => lattice_quick(),
        (false, t) => lattice(t),
    };
    for cfg in lat {
        for j in positions(cfg.m, tier.thorough()) {
            for variant in ["mid", "max", "zero", "twin-commitments"] {
                if variant == "zero" && j != cfg.m - 1 {
                    continue;
                }
                if variant == "twin-commitments" && (j == 0 || j != cfg.m - 1) {
                    continue;
                }
                cases.push(promise_case::<F>(cfg, j, tier, variant));
                cases.push(promise_case::<RistrettoPoint>(cfg, j, tier, variant));
            }
        }
    }
    rep.explore("C07", cases);
    rep.expect_sub_outcome("substitution:Ok");
    rep.expect_sub_outcome("substitution:Err:VerificationFailed");
    rep.expect_sub_outcome("prover:refused");
}
