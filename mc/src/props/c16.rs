//! C16 Decoding and verification never panic on untrusted input (DESIGN.md 3, C16)
//!
//! All sweeps run in isolated child processes (see engine::explore_in_children): an abort or runaway allocation names
//! the case that caused it. Cost is bounded with deterministic measures: group operations (free-module backend) and
//! bytes requested from the allocator, relative to the honest accepted verification of the same statement.

use curve25519_dalek::{ristretto::RistrettoPoint, scalar::Scalar};
use merlin::Transcript;
use serde_json::json;
use tari_bulletproofs_plus::{
    range_proof::{RangeProof, VerifyAction},
    range_statement::RangeStatement,
};

use crate::{
    allocmon,
    api::{HRng, G},
    common::*,
    engine::{case, Case, CaseResult, Report, Tier},
    fg::{self, F},
    mutate::{self, Mut},
    props::c15,
    refbp::{self, RefProof},
};

#[derive(Clone, Copy, Debug, Default)]
struct Cost {
    ops: u64,
    bytes: u64,
    largest: u64,
}

/// One verification call under catch_unwind with cost measurement
fn measured_verify<P: G>(sts: &[RangeStatement<P>], proofs: &[RangeProof<P>], ctxs: &[Ctx], mode: VerifyAction) -> (Observed, Cost) {
    let mut ts: Vec<Transcript> = ctxs.iter().map(|c| c.transcript()).collect();
    allocmon::count_start();
    let obs = verify_observed(sts, proofs, &mut ts, mode);
    let (bytes, largest) = allocmon::count_stop();
    let ops = obs.ops;
    (obs, Cost { ops, bytes, largest })
}

fn check_cost(honest: &Cost, hostile: &Cost, elements: usize, sub: &str, res: &mut CaseResult) {
    // the merlin trace kept by the harness is part of the measured allocation: allow for it per absorbed element
    let ops_bound = 4 * honest.ops + 8 * elements as u64 + 64;
    let bytes_bound = 4 * honest.bytes + 4096 * elements as u64 + (1 << 16);
    res.validated += 1;
    if hostile.ops > ops_bound {
        res.violate(format!("{}/ops", sub), format!("{} group operations for a hostile input; honest verification of the same statement takes {} (bound {})", hostile.ops, honest.ops, ops_bound));
    }
    if hostile.bytes > bytes_bound {
        res.violate(
            format!("{}/alloc", sub),
            format!("{} bytes requested from the allocator (largest request {}) for a hostile input of {} elements; honest verification requests {} (bound {})", hostile.bytes, hostile.largest, elements, honest.bytes, bytes_bound),
        );
    }
}

fn expect_no_panic(obs: &Observed, sub: &str, res: &mut CaseResult) {
    res.executions += 1;
    *res.outcome_counter(&format!("result:{}", obs.class().split(':').take(2).collect::<Vec<_>>().join(":"))) += 1;
    if obs.panic.is_some() {
        res.violate(sub.to_string(), format!("verification panicked on untrusted input: {}", obs.describe()));
    }
}

fn shape_proof_bytes<P: G>(d: usize, k: usize, point: &[u8; 32]) -> Vec<u8> {
    let mut one = [0u8; 32];
    one[0] = 1;
    let p = RefProof {
        ext: d as u8,
        d1: vec![Scalar::ONE; d],
        a: *point,
        a1: *point,
        b: *point,
        r1: Scalar::ONE,
        s1: Scalar::ONE,
        l: vec![*point; k],
        r: vec![*point; k],
    };
    let _ = one;
    refbp::ref_encode(&p)
}

/// (B) statement shape x proof shape: the full cross product of degrees and round counts
fn shapes_case<P: G>(cfg: Cfg) -> Box<dyn Case> {
    case(format!("{}/{}/proof-shapes", P::NAME, cfg.key()), move |_v| {
        fg::clear_intern();
        let mut res = CaseResult::new("explored");
        let mut wit = Wit::default_for(&cfg);
        if cfg.m == 1 {
            wit.seed = Some(seed_scalar(8));
        }
        let built = build_cached::<P>(&cfg, &wit).honest();
        // the honest verification of the same statement is the yardstick for the COST bound only; without one (the prover
        // refuses or panics, or its proof is not accepted: other properties' findings) the no-panic oracle still applies
        let honest: Option<Cost> = match catch(|| lib_prove(&built, &CTX_A, &mut HRng::chacha(14))) {
            Ok(Ok(honest_proof)) => {
                let (hobs, cost) = measured_verify(std::slice::from_ref(&built.statement), std::slice::from_ref(&honest_proof), &[CTX_A], VerifyAction::RecoverAndVerify);
                expect_no_panic(&hobs, "honest-proof/RecoverAndVerify", &mut res);
                if hobs.is_ok() {
                    Some(cost)
                } else {
                    None
                }
            },
            _ => None,
        };
        if honest.is_none() {
            *res.outcome_counter("no-honest-cost-baseline(no-panic oracle only)") += 1;
        }
        let point = built.params.h_base().g_compress();
        let log_nc = (cfg.n * cfg.c).trailing_zeros() as usize;
        let mut ks: Vec<usize> = (1..=log_nc + 2).collect();
        ks.extend([31, 32, 63, 64, 70, 1000]);
        for d2 in 1..=6usize {
            for &k2 in &ks {
                let bytes = shape_proof_bytes::<P>(d2, k2, &point);
                let proof = match catch(|| P::from_bytes(&bytes)) {
                    Ok(Ok(p)) => p,
                    Ok(Err(_)) => continue,
                    Err(p) => {
                        res.violate(format!("d'={},k'={}/decode", d2, k2), format!("decoder panicked: {}", p));
                        continue;
                    },
                };
                res.transitions += 1;
                for mode in MODES {
                    let (obs, cost) = measured_verify(std::slice::from_ref(&built.statement), std::slice::from_ref(&proof), &[CTX_A], mode);
                    let sub = format!("d'={},k'={}/{}", d2, k2, mode_name(mode));
                    expect_no_panic(&obs, &sub, &mut res);
                    if let Some(h) = &honest {
                        check_cost(h, &cost, 5 + d2 + 2 * k2, &sub, &mut res);
                    }
                    if obs.is_ok() && mode != VerifyAction::RecoverOnly {
                        *res.outcome_counter("constant-proof-accepted(noted: C02)") += 1;
                    }
                }
            }
        }
        res.sample = Some(json!({"cfg": cfg.key(), "honest_ops": honest.as_ref().map(|h| h.ops), "honest_alloc_bytes": honest.as_ref().map(|h| h.bytes)}));
        res
    })
}

/// (C)+(D) hostile points at every point position, hostile scalars at every scalar position; promises that do not fit
fn points_and_promises_case<P: G>(cfg: Cfg) -> Box<dyn Case> {
    case(format!("{}/{}/points+promises", P::NAME, cfg.key()), move |_v| {
        fg::clear_intern();
        let mut res = CaseResult::new("explored");
        let mut wit = Wit::default_for(&cfg);
        if cfg.m == 1 {
            wit.seed = Some(seed_scalar(8));
        }
        let built = build_cached::<P>(&cfg, &wit).honest();
        let proof = lib_prove_honest(&built, &CTX_A, &mut HRng::chacha(15));
        let (_, honest) = measured_verify(std::slice::from_ref(&built.statement), std::slice::from_ref(&proof), &[CTX_A], VerifyAction::RecoverAndVerify);
        if let Some(rp) = refbp::ref_decode(&P::to_bytes(&proof)) {
            let h = built.params.h_base().clone();
            for m in mutate::menu(&rp, false) {
                // the whole menu: hostile points, round surgery, and every scalar position set to zero / negated / shifted /
                // copied / written non-canonically (value + l), degree tags
                if let Some(b) = mutate::apply::<P>(&rp, &m, &h) {
                    let decoded = catch(|| P::from_bytes(&b));
                    res.executions += 1;
                    if let Err(p) = &decoded {
                        res.outcome = "panic".into();
                        res.violate(format!("{:?}/decode", m), format!("from_bytes panicked on a {}-byte input ({:?} applied to an honest proof): {}", b.len(), m, p));
                    }
                    if let Ok(Ok(p2)) = decoded {
                        res.transitions += 1;
                        for mode in MODES {
                            let (obs, cost) = measured_verify(std::slice::from_ref(&built.statement), std::slice::from_ref(&p2), &[CTX_A], mode);
                            let sub = format!("{:?}/{}", m, mode_name(mode));
                            expect_no_panic(&obs, &sub, &mut res);
                            // the per-element allowance is that of the input actually presented (appended rounds make it longer).
                            // Over F an appended copy of an honest L/R is a map with one entry per generator (kilobytes, a harness
                            // artefact), so the allocation bound for appended rounds is judged on Ristretto only.
                            if !(P::IS_F && matches!(m, Mut::AppendRounds(_))) {
                                check_cost(&honest, &cost, (b.len() / 32).max(5 + cfg.d + 2 * rp.l.len()) + 2, &sub, &mut res);
                            }
                        }
                    }
                }
            }
        }
        let mut hostile_promises = vec![cfg.max_value(), u64::MAX];
        if cfg.n < 64 {
            hostile_promises.push(1u64 << cfg.n);
        }
        for j in [0, cfg.m - 1] {
            for p in &hostile_promises {
                let mut ps = wit.promises.clone();
                ps[j] = Some(*p);
                if let Ok(st) = restate(&built, built.commitments.clone(), ps, wit.seed) {
                    res.transitions += 1;
                    for mode in MODES {
                        let (obs, _) = measured_verify(std::slice::from_ref(&st), std::slice::from_ref(&proof), &[CTX_A], mode);
                        expect_no_panic(&obs, &format!("promise[{}]={}/{}", j, p, mode_name(mode)), &mut res);
                    }
                }
            }
        }
        res
    })
}

/// Statement shapes: whatever `RangeStatement::init` accepts (commitment count x promise count x seed) is a statement the
/// verifier must handle without panicking, alone and as the second member of a batch, in every mode
fn statement_shapes_case<P: G>(n: usize, d: usize) -> Box<dyn Case> {
    case(format!("{}/n={},d={}/statement-shapes", P::NAME, n, d), move |_v| {
        fg::clear_intern();
        let mut res = CaseResult::new("explored");
        let params = P::params(n, 4, P::pc_gens(d)).honest();
        // an honest companion to put in front
        let comp_cfg = Cfg::new(n, 1, 4, d);
        let comp_wit = Wit::default_for(&comp_cfg);
        let comp_commitments = commitments_for(params.pc_gens(), &comp_wit).honest();
        let comp_st = P::statement(params.clone(), comp_commitments, comp_wit.promises.clone(), None).honest();
        let comp_built = Built { params: params.clone(), statement: comp_st.clone(), witness: witness_for(&comp_wit).honest(), commitments: vec![] };
        let comp_proof = lib_prove_honest(&comp_built, &CTX_A, &mut HRng::chacha(77));
        for count in [1usize, 2, 3, 4] {
            let cfg = Cfg::new(n, count.next_power_of_two().min(4), 4, d);
            let wit = Wit::default_for(&cfg);
            let all_commitments = commitments_for(params.pc_gens(), &wit).honest();
            // the honest proof for the power-of-two aggregate (material for the verifier; any proof would do)
            let honest_st = match P::statement(params.clone(), all_commitments.clone(), wit.promises.clone(), None) {
                Ok(s) => s,
                Err(_) => continue,
            };
            let honest_built = Built { params: params.clone(), statement: honest_st, witness: witness_for(&wit).honest(), commitments: vec![] };
            let proof = lib_prove_honest(&honest_built, &CTX_A, &mut HRng::chacha(78));
            let commitments: Vec<P> = all_commitments.iter().take(count).cloned().collect();
            for pcount in [0usize, count.saturating_sub(1), count, count + 1] {
                for pval in [None, Some(0u64), Some(1)] {
                    for seed in [None, Some(seed_scalar(3))] {
                        let promises: Vec<Option<u64>> = vec![pval; pcount];
                        let st = match catch(|| P::statement(params.clone(), commitments.clone(), promises.clone(), seed)) {
                            Ok(Ok(st)) => st,
                            Ok(Err(_)) => {
                                *res.outcome_counter("statement-refused") += 1;
                                continue;
                            },
                            Err(p) => {
                                res.violate(format!("count={},promises={}/init", count, pcount), format!("statement constructor panicked: {}", p));
                                continue;
                            },
                        };
                        *res.outcome_counter("statement-accepted") += 1;
                        res.transitions += 1;
                        for mode in MODES {
                            let sub = format!("commitments={},promises={}x{:?},seed={}/{}", count, pcount, pval, seed.is_some(), mode_name(mode));
                            let (obs, _) = measured_verify(std::slice::from_ref(&st), std::slice::from_ref(&proof), &[CTX_A], mode);
                            expect_no_panic(&obs, &format!("{}/alone", sub), &mut res);
                            let (obs, _) = measured_verify(&[comp_st.clone(), st.clone()], &[P::proof_clone(&comp_proof), P::proof_clone(&proof)], &[CTX_A, CTX_A], mode);
                            expect_no_panic(&obs, &format!("{}/second-in-batch", sub), &mut res);
                        }
                    }
                }
            }
        }
        res
    })
}

const BK: [&str; 8] = [
    "honest",
    "honest-m2",
    "honest-c4",
    "hostile-degree",
    "hostile-rounds",
    "hostile-undecodable",
    "hostile-identity",
    "hostile-narrow-proof-for-wide-statement",
];

/// (E) batches of 1..3 members mixing shapes and capacities in every order; members share parameter objects by clone
/// and every single-commitment member carries a seed
fn batch_case<P: G>(d: usize, seq: Vec<usize>) -> Box<dyn Case> {
    let name: Vec<&str> = seq.iter().map(|k| BK[*k]).collect();
    case(format!("{}/d={}/batch/{}", P::NAME, d, name.join(",")), move |_v| {
        fg::clear_intern();
        let mut res = CaseResult::new("explored");
        let n = 2usize;
        let shared = P::params(n, 4, P::pc_gens(d)).unwrap(); // one parameter object, cloned into every statement
        let mut sts = Vec::new();
        let mut proofs = Vec::new();
        let mut ctxs = Vec::new();
        for (pos, k) in seq.iter().enumerate() {
            let kind = BK[*k];
            let m = if kind == "honest-m2" || kind == "hostile-narrow-proof-for-wide-statement" { 2 } else { 1 };
            let cfg = Cfg::new(n, m, 4, d);
            let mut wit = Wit::default_for(&cfg);
            for j in 0..m {
                wit.values[j] = ((pos + j) as u64) & 3;
            }
            if m == 1 {
                wit.seed = Some(seed_scalar(40 + pos as u64));
            }
            let params = if kind == "honest-c4" { P::params(n, 8, P::pc_gens(d)).unwrap() } else { shared.clone() };
            let commitments = commitments_for(params.pc_gens(), &wit).unwrap();
            let st = P::statement(params, commitments, wit.promises.clone(), wit.seed).unwrap();
            let witness = witness_for(&wit).unwrap();
            let ctx = contexts()[pos % 6];
            let mut t = ctx.transcript();
            // an honest proof is only the raw material for the members: a prover that refuses or panics is not this property's
            let proof = match catch(|| P::prove(&mut t, &st, &witness, &mut HRng::chacha(16 + pos as u64))) {
                Ok(Ok(p)) => p,
                other => std::panic::panic_any(HonestPrecondition(format!("an honest prove failed: {:?}", other.map(|r| r.map(|_| ()).map_err(|e| crate::api::err_name(&e)))))),
            };
            let mut rp = ref_proof_of(&proof).unwrap();
            match kind {
                "hostile-degree" => {
                    // a smaller (or, at degree 1, larger) extension tag with the correct round count
                    let d2 = if d > 1 { d - 1 } else { 2 };
                    rp.ext = d2 as u8;
                    rp.d1.resize(d2, Scalar::ONE);
                },
                "hostile-rounds" => {
                    let (l, r) = (rp.l[0], rp.r[0]);
                    rp.l.push(l);
                    rp.r.push(r);
                },
                "hostile-narrow-proof-for-wide-statement" => {
                    // the round count of a single-commitment proof attached to a 2-commitment statement
                    rp.l.pop();
                    rp.r.pop();
                },
                "hostile-undecodable" => rp.l[0] = [0xffu8; 32],
                "hostile-identity" => rp.b = [0u8; 32],
                _ => {},
            }
            let proof = P::from_bytes(&refbp::ref_encode(&rp)).unwrap();
            sts.push(st);
            proofs.push(proof);
            ctxs.push(ctx);
        }
        let all_honest = seq.iter().all(|k| BK[*k].starts_with("honest"));
        for mode in MODES {
            let (obs, _) = measured_verify(&sts, &proofs, &ctxs, mode);
            let sub = mode_name(mode).to_string();
            expect_no_panic(&obs, &sub, &mut res);
            if all_honest && !obs.is_ok() {
                *res.outcome_counter("all-honest-batch-rejected(noted)") += 1;
            }
        }
        res
    })
}

/// (F) batches beyond the chunk limit whose largest member sits in one chunk only
fn long_batch_case<P: G>(layout: &'static str) -> Box<dyn Case> {
    case(format!("{}/long-batch/{}", P::NAME, layout), move |_v| {
        fg::clear_intern();
        let mut res = CaseResult::new("explored");
        let n = 2usize;
        let d = 1usize;
        let total = 257usize;
        let big_at: Vec<usize> = match layout {
            "big-first" => vec![0],
            "big-at-255" => vec![255],
            "big-last" => vec![256],
            "big-first-and-last" => vec![0, 256],
            _ => vec![],
        };
        let mut sts = Vec::new();
        let mut proofs = Vec::new();
        let mut ctxs = Vec::new();
        for pos in 0..total {
            let big = big_at.contains(&pos);
            // capacity beyond the aggregate (padding in the final multiscalar multiplication) together with a long member list
            let cap = match layout {
                "spare-capacity" => 4,
                "mixed-capacity" => [1usize, 4, 2][pos % 3],
                _ => 1,
            };
            let cfg = if big { Cfg::new(n, 2, 2 * cap, d) } else { Cfg::new(n, 1, cap, d) };
            let mut wit = Wit::default_for(&cfg);
            wit.values[0] = (pos % 4) as u64;
            let built = build_cached::<P>(&cfg, &wit).honest();
            let ctx = contexts()[pos % 6];
            proofs.push(lib_prove_honest(&built, &ctx, &mut HRng::chacha(pos as u64)));
            sts.push(built.statement.clone());
            ctxs.push(ctx);
        }
        for mode in [VerifyAction::VerifyOnly, VerifyAction::RecoverAndVerify] {
            let (obs, _) = measured_verify(&sts, &proofs, &ctxs, mode);
            expect_no_panic(&obs, mode_name(mode), &mut res);
            if !obs.is_ok() {
                *res.outcome_counter("all-honest-batch-rejected(noted)") += 1;
            }
        }
        res
    })
}

/// (A) the decode corpus of C15 (every length x first byte, positions x alphabets) with the no-panic oracle
fn decode_cases() -> Vec<Box<dyn Case>> {
    let mut cases: Vec<Box<dyn Case>> = Vec::new();
    for chunk in 0..8usize {
        cases.push(case(format!("decode/lengths/first-bytes-mod8={}", chunk), move |_v| {
            let mut res = CaseResult::new("explored");
            let max_len = 1 + 32 * (5 + 6 + 2 * 12) + 40;
            for fb in (0..256usize).filter(|x| x % 8 == chunk) {
                for len in 0..=max_len {
                    let mut b = vec![1u8; len];
                    if len > 0 {
                        b[0] = fb as u8;
                    }
                    res.transitions += 1;
                    c15::check_bytes::<RistrettoPoint>(&b, &format!("len={},first={}", len, fb), &mut res);
                }
            }
            // very long inputs: decoding cost stays proportional
            for len in [1 + 32 * 2005, 1 + 32 * 100_001, 1 + 32 * 100_001 + 7] {
                let mut b = vec![1u8; len];
                b[0] = 1;
                allocmon::count_start();
                let r = catch(|| RistrettoPoint::from_bytes(&b));
                let (bytes, _) = allocmon::count_stop();
                res.executions += 1;
                if r.is_err() {
                    res.violate(format!("len={}", len), "decoder panicked on a long input");
                }
                if bytes > 16 * len as u64 + (1 << 16) {
                    res.violate(format!("len={}/alloc", len), format!("decoding {} bytes requested {} bytes from the allocator", len, bytes));
                }
            }
            res
        }));
    }
    cases
}

/// (G) a validly constructed statement with a very large aggregation factor (capacity 512 / 1024)
fn huge_aggregation_case<P: G>(m: usize) -> Box<dyn Case> {
    case(format!("{}/huge-aggregation/m={}", P::NAME, m), move |_v| {
        fg::clear_intern();
        let mut res = CaseResult::new("explored");
        let cfg = Cfg::new(1, m, m, 1);
        let wit = Wit::default_for(&cfg);
        let built = match catch(|| build::<P>(&cfg, &wit)) {
            Ok(Ok(b)) => b,
            Ok(Err(_)) => {
                // which aggregation sizes the constructors admit is C17's question; without the statement there is nothing to verify
                res.outcome = "statement-not-constructible(skipped)".into();
                return res;
            },
            Err(p) => {
                res.violate("construct", format!("constructors panicked for aggregation {}: {}", m, p));
                return res;
            },
        };
        let proof = match catch(|| lib_prove(&built, &CTX_A, &mut HRng::chacha(17))) {
            Ok(Ok(p)) => p,
            Ok(Err(_)) => {
                res.outcome = "prover-refused(noted)".into();
                return res;
            },
            Err(p) => {
                res.violate("prove", format!("prover panicked: {}", p));
                return res;
            },
        };
        for mode in MODES {
            let (obs, _) = measured_verify(std::slice::from_ref(&built.statement), std::slice::from_ref(&proof), &[CTX_A], mode);
            expect_no_panic(&obs, mode_name(mode), &mut res);
        }
        // and a hostile proof for it
        let bytes = shape_proof_bytes::<P>(1, 3, &built.params.h_base().g_compress());
        if let Ok(Ok(p2)) = catch(|| P::from_bytes(&bytes)) {
            for mode in MODES {
                let (obs, _) = measured_verify(std::slice::from_ref(&built.statement), std::slice::from_ref(&p2), &[CTX_A], mode);
                expect_no_panic(&obs, &format!("hostile/{}", mode_name(mode)), &mut res);
            }
        }
        res
    })
}

pub fn build_cases(tier: Tier) -> Vec<Box<dyn Case>> {
    let mut cases = decode_cases();
    for cfg in lattice(tier.thorough()) {
        cases.push(shapes_case::<F>(cfg));
        cases.push(shapes_case::<RistrettoPoint>(cfg));
        cases.push(points_and_promises_case::<F>(cfg));
        cases.push(points_and_promises_case::<RistrettoPoint>(cfg));
    }
    for d in [1usize, 2, 3] {
        let mut frontier: Vec<Vec<usize>> = vec![vec![]];
        for _ in 0..3 {
            let mut next = Vec::new();
            for s in &frontier {
                for k in 0..BK.len() {
                    let mut t = s.clone();
                    t.push(k);
                    next.push(t);
                }
            }
            for seq in &next {
                cases.push(batch_case::<F>(d, seq.clone()));
                if d <= 2 {
                    cases.push(batch_case::<RistrettoPoint>(d, seq.clone()));
                }
            }
            frontier = next;
        }
    }
    for (n, d) in [(2usize, 1usize), (8, 2)] {
        cases.push(statement_shapes_case::<F>(n, d));
        cases.push(statement_shapes_case::<RistrettoPoint>(n, d));
    }
    for m in [512usize, 1024] {
        cases.push(huge_aggregation_case::<F>(m));
        if m == 512 {
            cases.push(huge_aggregation_case::<RistrettoPoint>(m));
        }
    }
    for layout in ["big-first", "big-at-255", "big-last", "big-first-and-last", "uniform", "spare-capacity", "mixed-capacity"] {
        cases.push(long_batch_case::<F>(layout));
        cases.push(long_batch_case::<RistrettoPoint>(layout));
    }
    cases
}

pub fn run(rep: &mut Report) {
    rep.rule = "in isolated child processes, release build with debug assertions and overflow checks, both groups: (A) every length x \
                every first byte and inputs up to 3.2 MB through the decoder; (B) statement shapes of the lattice x proof shapes (degree \
                1..6 x rounds {1..log2(n*c)+2, 31, 32, 63, 64, 70, 1000}) x 3 modes, seeded; (C) identity / undecodable / wrong point at \
                every point position, zero / negated / shifted / copied / non-canonical (value + l) scalar at every scalar position, degree tags, dropped / duplicated rounds, through the decoder and (if it decodes) the verifier; (D) promises {2^n-1, 2^n, u64::MAX}; (E) every batch of 1..3 members \
                over {honest, honest m=2, honest other capacity, wrong degree tag, extra round, undecodable point, identity point, a narrow \
                proof attached to a wide statement} sharing \
                one cloned parameter object, seeded, 3 modes; (F) 257-member batches whose largest member sits in one chunk; (G) statements with aggregation 512 / 1024; oracle: Ok or \
                Err, never a panic / abort; group operations and allocator bytes bounded by 4x the honest verification plus a per-element term"
        .into();
    rep.assume("cost is measured as group operations (free-module backend) and bytes requested from the allocator, not wall time");
    let cases = build_cases(rep.tier);
    let keys: Vec<String> = cases.iter().map(|c| c.key()).collect();
    let n = cases.len();
    drop(cases);
    rep.explore_in_children("C16", "C16", n, keys);
    rep.expect_sub_outcome("result:Err:InvalidLength");
    rep.expect_sub_outcome("result:Err:VerificationFailed");
    rep.expect_sub_outcome("result:Ok");
}
