//! C08 Batch weighting: defects in different proofs can never cancel (DESIGN.md 3, C08)
//!
//! Over F every member's B carries a marker basis element, so one verification call reveals every weight as the
//! marker's coefficient in the compared element.

use curve25519_dalek::scalar::Scalar;
use merlin::Transcript;
use serde_json::json;
use tari_bulletproofs_plus::{range_proof::VerifyAction, range_statement::RangeStatement};

use crate::{
    api::{HRng, G},
    common::*,
    engine::{case, Case, CaseResult, Report},
    fg::{self, F},
    mutate::{self, SPos},
    refbp::{self, RefProof},
};

#[derive(Clone)]
pub struct Member {
    pub st: RangeStatement<F>,
    pub rp: RefProof,
    pub marker: fg::BasisId,
    pub ctx: Ctx,
}

pub fn member(pos: usize, m: usize, d: usize, tag: &str) -> Member {
    let cfg = Cfg::new(2, m, m, d);
    let wit = Wit {
        values: (0..m).map(|j| ((pos + j) as u64) & 3).collect(),
        blindings: (0..m).map(|j| (0..d).map(|k| blinding(3000 + 8 * pos + j, k)).collect()).collect(),
        promises: vec![None; m],
        seed: None,
    };
    let ctx = contexts()[pos % 6];
    let built = build_cached::<F>(&cfg, &wit).honest();
    let proof = lib_prove_honest(&built, &ctx, &mut HRng::chacha(100 + pos as u64));
    let mut rp = ref_proof_of(&proof).unwrap();
    let marker = fg::basis(&format!("weight-marker:{}:{}", tag, pos));
    let marker_id = *marker.0.keys().next().unwrap();
    let b = F::g_decompress(&rp.b).unwrap();
    rp.b = b.g_add(&marker).g_compress();
    Member {
        st: built.statement.clone(),
        rp,
        marker: marker_id,
        ctx,
    }
}

pub struct Observation {
    pub accepted: bool,
    /// weight of each member (coefficient of its marker), None if no final comparison was reached
    pub weights: Option<Vec<Scalar>>,
    pub residual: Option<F>,
    pub describe: String,
}

fn observe(batch: &[Member]) -> Observation {
    observe_mode(batch, VerifyAction::VerifyOnly)
}

pub fn observe_mode(batch: &[Member], mode: VerifyAction) -> Observation {
    let sts: Vec<RangeStatement<F>> = batch.iter().map(|m| m.st.clone()).collect();
    let proofs: Vec<_> = batch.iter().map(|m| F::from_bytes(&refbp::ref_encode(&m.rp)).expect("decodes")).collect();
    let mut ts: Vec<Transcript> = batch.iter().map(|m| m.ctx.transcript()).collect();
    let obs = verify_observed(&sts, &proofs, &mut ts, mode);
    let residual = obs
        .residuals
        .iter()
        .rev()
        .find(|r| batch.iter().any(|m| r.coeff(m.marker) != Scalar::ZERO))
        .cloned();
    let weights = residual.as_ref().map(|r| batch.iter().map(|m| r.coeff(m.marker)).collect());
    Observation {
        accepted: obs.is_ok(),
        weights,
        residual,
        describe: obs.describe(),
    }
}

fn bump(p: &mut RefProof, pos: &SPos, by: Scalar) {
    match pos {
        SPos::R1 => p.r1 += by,
        SPos::S1 => p.s1 += by,
        SPos::D1(k) => p.d1[*k] += by,
    }
}

fn weights_case(d: usize, size: usize, mixed: bool, mode: VerifyAction) -> Box<dyn Case> {
    case(format!("d={}/size={}/mixed={}/{}", d, size, mixed, mode_name(mode)), move |_v| {
        fg::clear_intern();
        let mut res = CaseResult::new("explored");
        let batch: Vec<Member> = (0..size).map(|p| member(p, if mixed && p == 1 { 2 } else { 1 }, d, "w")).collect();
        let observe = |b: &[Member]| observe_mode(b, mode);
        let base = observe(&batch);
        res.executions += 1;
        let w = match &base.weights {
            Some(w) => w.clone(),
            None => {
                // the verifier never compared anything (e.g. it accepted outright): C02 / C05's finding
                res.outcome = "no-compared-element(skipped)".into();
                return res;
            },
        };
        if base.accepted {
            res.violate("base", "a batch whose members carry foreign basis elements was accepted");
        }
        // (1) every weight nonzero
        for (i, wi) in w.iter().enumerate() {
            res.validated += 1;
            if *wi == Scalar::ZERO {
                res.violate(format!("weight[{}]", i), "batch weight is zero");
            }
        }
        // (1') the compared element is exactly sum_i w_i x (reference linear form of member i)
        let mut expect = F::zero();
        for (i, m) in batch.iter().enumerate() {
            let rst = ref_statement(&m.st);
            let mut t = m.ctx.transcript();
            let chk = refbp::ref_verify(&mut t, &rst, &m.rp);
            match chk.residual {
                Some(r) => expect.add_scaled(&r, &w[i]),
                None => {
                    res.machinery_error(format!("reference refuses marked member {}: {:?}", i, chk.verdict));
                    return res;
                },
            }
        }
        res.validated += 1;
        if base.residual.as_ref().map(|r| &r.0) != Some(&expect.0) {
            let mut diff = base.residual.clone().unwrap();
            diff.add_scaled(&expect, &(-Scalar::ONE));
            res.violate("linear-form", format!("compared element is not sum_i w_i x relation_i; {} coordinates differ, e.g. {:?}", diff.support(), diff.describe(5)));
        }
        if w.iter().any(|x| *x == Scalar::ZERO) {
            return res;
        }
        // (2) for every ordered pair (i, j) and every response scalar of either: changing it changes w_i / w_j
        for i in 0..size {
            for j in 0..size {
                if i == j {
                    continue;
                }
                let base_ratio = w[i] * w[j].invert();
                for who in [i, j] {
                    for pos in mutate::scalar_positions(&batch[who].rp) {
                        res.transitions += 1;
                        let mut b2 = batch.clone();
                        bump(&mut b2[who].rp, &pos, Scalar::ONE);
                        let o = observe(&b2);
                        res.executions += 1;
                        res.validated += 1;
                        match o.weights {
                            Some(w2) if w2[j] != Scalar::ZERO => {
                                let ratio = w2[i] * w2[j].invert();
                                *res.outcome_counter("ratio-comparisons") += 1;
                                if ratio == base_ratio {
                                    res.violate(
                                        format!("ratio[{},{}]/member{}.{:?}", i, j, who, pos),
                                        format!("w_{}/w_{} does not change when response {:?} of member {} changes", i, j, pos, who),
                                    );
                                }
                            },
                            _ => res.violate(format!("ratio[{},{}]/member{}.{:?}", i, j, who, pos), "weight vanished or no comparison reached"),
                        }
                    }
                }
            }
        }
        // (2') ... and so does moving an amount from one response scalar to another of the same member (a weight that sees only
        // the sum of some responses, or any other symmetric digest of them, is constant along such a move)
        for i in 0..size {
            let j = (i + 1) % size;
            let base_ratio = w[i] * w[j].invert();
            let positions = mutate::scalar_positions(&batch[i].rp);
            for a in 0..positions.len() {
                for b in (a + 1)..positions.len() {
                    for (da, db) in [(Scalar::ONE, -Scalar::ONE), (Scalar::from(5u8), -Scalar::from(5u8))] {
                        res.transitions += 1;
                        let mut b2 = batch.clone();
                        bump(&mut b2[i].rp, &positions[a], da);
                        bump(&mut b2[i].rp, &positions[b], db);
                        let o = observe(&b2);
                        res.executions += 1;
                        res.validated += 1;
                        match o.weights {
                            Some(w2) if w2[j] != Scalar::ZERO => {
                                *res.outcome_counter("ratio-comparisons") += 1;
                                if w2[i] * w2[j].invert() == base_ratio {
                                    res.violate(
                                        format!("ratio[{},{}]/member{}.{:?}->{:?}", i, j, i, positions[a], positions[b]),
                                        format!("w_{}/w_{} does not change when an amount is moved from response {:?} to response {:?} of member {}", i, j, positions[b], positions[a], i),
                                    );
                                }
                            },
                            _ => res.violate(format!("ratio[{},{}]/member{}.{:?}->{:?}", i, j, i, positions[a], positions[b]), "weight vanished or no comparison reached"),
                        }
                    }
                }
            }
        }
        res.sample = Some(json!({"d": d, "size": size, "mixed": mixed}));
        res
    })
}

/// A batch beyond the chunk limit: the weights of the members of a LATER chunk depend on the responses of that chunk
/// (members 0..255 are plain valid proofs, members 256 and 257 carry markers; a response of member 257 is changed)
fn late_chunk_case(mode: VerifyAction) -> Box<dyn Case> {
    chunk_case(mode, false)
}

/// `full_chunk`: exactly 256 members (one full chunk), markers on the first and the last
fn chunk_case(mode: VerifyAction, full_chunk: bool) -> Box<dyn Case> {
    case(format!("{}/{}", if full_chunk { "full-chunk-of-256" } else { "late-chunk" }, mode_name(mode)), move |_v| {
        fg::clear_intern();
        let mut res = CaseResult::new("explored");
        let (ia, ib) = if full_chunk { (0usize, 255usize) } else { (256usize, 257usize) };
        let mut batch: Vec<Member> = (0..if full_chunk { 256 } else { 258 }).map(|p| plain_member(p, 1, 1)).collect();
        batch[ia] = member(ia, 1, 1, "late");
        batch[ib] = member(ib, 1, 1, "late");
        let weights_of = |b: &[Member]| -> Option<(Scalar, Scalar)> {
            let o = observe_mode(b, mode);
            let r = o.residual?;
            Some((r.coeff(b[ia].marker), r.coeff(b[ib].marker)))
        };
        let base = weights_of(&batch);
        res.executions += 1;
        let (w0, w1) = match base {
            Some((a, b)) if a != Scalar::ZERO && b != Scalar::ZERO => (a, b),
            _ => {
                // the first chunk was not accepted or nothing was compared: other properties' findings
                res.outcome = "no-compared-element(skipped)".into();
                return res;
            },
        };
        let base_ratio = w0 * w1.invert();
        for who in [ia, ib] {
            for pos in mutate::scalar_positions(&batch[who].rp) {
                res.transitions += 1;
                let mut b2 = batch.clone();
                bump(&mut b2[who].rp, &pos, Scalar::ONE);
                res.executions += 1;
                res.validated += 1;
                match weights_of(&b2) {
                    Some((a, b)) if b != Scalar::ZERO => {
                        *res.outcome_counter("ratio-comparisons") += 1;
                        if a * b.invert() == base_ratio {
                            res.violate(
                                format!("member{}.{:?}", who, pos),
                                format!("w_{}/w_{} ({}) does not change when response {:?} of member {} changes", ia, ib, if full_chunk { "a full chunk of 256 members" } else { "second chunk of a 258-member batch" }, pos, who),
                            );
                        }
                    },
                    _ => res.violate(format!("member{}.{:?}", who, pos), "weight vanished or no comparison reached"),
                }
            }
        }
        res
    })
}

/// Batches in which every member occurs twice (identical bytes): the pair's joint weight is read from the shared
/// marker; it must still depend on the responses, and offsets computed from observed joint weights must not cancel
fn duplicates_case(d: usize, layout: &'static str, mode: VerifyAction) -> Box<dyn Case> {
    case(format!("d={}/duplicates/{}/{}", d, layout, mode_name(mode)), move |_v| {
        fg::clear_intern();
        let mut res = CaseResult::new("explored");
        let p = member(0, 1, d, "dup");
        let q = member(1, 1, d, "dup");
        let arrange = |p: &Member, q: &Member| -> Vec<Member> {
            match layout {
                "PPQQ" => vec![p.clone(), p.clone(), q.clone(), q.clone()],
                "PQPQ" => vec![p.clone(), q.clone(), p.clone(), q.clone()],
                _ => vec![p.clone(), q.clone(), q.clone(), p.clone()],
            }
        };
        let joint = |o: &Observation| -> Option<(Scalar, Scalar)> { o.residual.as_ref().map(|r| (r.coeff(p.marker), r.coeff(q.marker))) };
        let base = observe_mode(&arrange(&p, &q), mode);
        res.executions += 1;
        let (wp, wq) = match joint(&base) {
            Some(x) => x,
            None => {
                res.outcome = "no-compared-element(skipped)".into();
                return res;
            },
        };
        res.validated += 1;
        if wp == Scalar::ZERO || wq == Scalar::ZERO {
            res.violate("joint-weight", "the joint weight of a duplicated member is zero");
            return res;
        }
        let base_ratio = wp * wq.invert();
        for pos in mutate::scalar_positions(&p.rp) {
            res.transitions += 1;
            let mut p2 = p.clone();
            bump(&mut p2.rp, &pos, Scalar::ONE);
            let o = observe_mode(&arrange(&p2, &q), mode);
            res.executions += 1;
            res.validated += 1;
            match joint(&o) {
                Some((a, b)) if b != Scalar::ZERO => {
                    *res.outcome_counter("ratio-comparisons") += 1;
                    if a * b.invert() == base_ratio {
                        res.violate(format!("ratio/{:?}", pos), format!("the ratio of the joint weights does not change when response {:?} of the duplicated member changes", pos));
                    }
                },
                _ => res.violate(format!("ratio/{:?}", pos), "weight vanished"),
            }
        }
        // adaptive cancellation with duplicates
        for k in 0..d {
            let gk = fg::basis_id(&format!("G{}", k));
            let mut p2 = p.clone();
            let mut q2 = q.clone();
            p2.rp.d1[k] += wq;
            q2.rp.d1[k] -= wp;
            let o = observe_mode(&arrange(&p2, &q2), mode);
            res.executions += 1;
            res.validated += 1;
            *res.outcome_counter(if o.accepted { "adaptive-accepted" } else { "adaptive-rejected" }) += 1;
            let g = o.residual.as_ref().map(|r| r.coeff(gk)).unwrap_or(Scalar::ZERO);
            if o.accepted || g == Scalar::ZERO {
                res.violate(format!("adaptive/k={}", k), format!("offsetting defects on duplicated members cancelled on G{} (accepted = {})", k, o.accepted));
            }
        }
        res
    })
}

/// A valid member (no marker)
pub fn plain_member(pos: usize, m: usize, d: usize) -> Member {
    let cfg = Cfg::new(2, m, m, d);
    let wit = Wit {
        values: (0..m).map(|j| ((pos + j) as u64) & 3).collect(),
        blindings: (0..m).map(|j| (0..d).map(|k| blinding(3500 + 8 * pos + j, k)).collect()).collect(),
        promises: vec![None; m],
        seed: None,
    };
    let ctx = contexts()[pos % 6];
    let built = build_cached::<F>(&cfg, &wit).honest();
    let proof = lib_prove_honest(&built, &ctx, &mut HRng::chacha(300 + pos as u64));
    Member {
        st: built.statement.clone(),
        rp: ref_proof_of(&proof).unwrap(),
        marker: 0,
        ctx,
    }
}

/// The compared element of a batch of otherwise valid members (None if no final comparison was reached)
pub fn observe_plain(batch: &[Member], mode: VerifyAction) -> (bool, Option<F>) {
    let sts: Vec<RangeStatement<F>> = batch.iter().map(|m| m.st.clone()).collect();
    let proofs: Vec<_> = batch.iter().map(|m| F::from_bytes(&refbp::ref_encode(&m.rp)).expect("decodes")).collect();
    let mut ts: Vec<Transcript> = batch.iter().map(|m| m.ctx.transcript()).collect();
    let obs = verify_observed(&sts, &proofs, &mut ts, mode);
    (obs.is_ok(), obs.residuals.last().cloned())
}

/// The adaptive attacker: every member is valid except for a shift of one response. Run A shifts member i alone and reads
/// its factor from the G_k coordinate of the compared element, run B does the same for member j, run C submits both
/// shifts sized so that they would cancel if the factors of runs A and B were used again. Run C must be rejected with a
/// nonzero G_k coordinate.
pub fn three_run_attack(batch: &[Member], i: usize, j: usize, k: usize, mode: VerifyAction, reversed: bool) -> Result<(bool, Scalar), String> {
    let gk = fg::basis_id(&format!("G{}", k));
    let t = Scalar::from(0x1f2e3d4cu64);
    let u = Scalar::from(0x5a6b7c8du64);
    let read = |b: &[Member], shift: Scalar| -> Result<Scalar, String> {
        let (ok, r) = observe_plain(b, mode);
        if ok {
            return Err("a batch with one shifted response was accepted".into());
        }
        let r = r.ok_or("no compared element observed")?;
        Ok(r.coeff(gk) * shift.invert())
    };
    let mut a = batch.to_vec();
    a[i].rp.d1[k] += t;
    let wi = read(&a, t)?;
    let mut b = batch.to_vec();
    b[j].rp.d1[k] += u;
    let wj = read(&b, u)?;
    if wi == Scalar::ZERO || wj == Scalar::ZERO {
        return Err("a single shifted response left the G_k coordinate at zero (zero factor)".into());
    }
    let mut c = batch.to_vec();
    c[i].rp.d1[k] += t;
    c[j].rp.d1[k] -= t * wi * wj.invert();
    if reversed {
        c.reverse();
    }
    let (ok, r) = observe_plain(&c, mode);
    Ok((ok, r.map(|r| r.coeff(gk)).unwrap_or(Scalar::ZERO)))
}

fn adaptive_case(d: usize, size: usize, i: usize, j: usize, k: usize, variant: &'static str) -> Box<dyn Case> {
    case(format!("d={}/size={}/adaptive/{}/pair=({},{})/k={}", d, size, variant, i, j, k), move |_v| {
        fg::clear_intern();
        let mut res = CaseResult::new("explored");
        let mut batch: Vec<Member> = (0..size).map(|p| plain_member(p, 1, d)).collect();
        if variant == "identical-proofs" {
            batch[j] = batch[i].clone();
        }
        for mode in [VerifyAction::VerifyOnly, VerifyAction::RecoverAndVerify] {
            res.transitions += 1;
            res.executions += 3;
            res.validated += 1;
            match three_run_attack(&batch, i, j, k, mode, variant == "reversed-order") {
                Err(e) => res.violate(format!("{}/setup", mode_name(mode)), e),
                Ok((accepted, g)) => {
                    *res.outcome_counter(if accepted { "adaptive-accepted" } else { "adaptive-rejected" }) += 1;
                    if accepted || g == Scalar::ZERO {
                        res.violate(
                            mode_name(mode),
                            format!("defects sized from the factors observed on two earlier runs cancel on G{} in a batch of otherwise valid proofs (accepted = {})", k, accepted),
                        );
                    }
                },
            }
        }
        res
    })
}

/// Environment deviations on the verifier's weight generator: a window of 1 or 2 consecutive outputs is the sample that
/// reduces to zero. Every weight is still nonzero, the weights still differ from one another, and each is a value the
/// generator handed out (never a constant a submitter could know in advance).
fn zero_weight_draw_case(d: usize, size: usize, mode: VerifyAction) -> Box<dyn Case> {
    case(format!("d={}/size={}/zero-rng-outputs/{}", d, size, mode_name(mode)), move |_v| {
        fg::clear_intern();
        let mut res = CaseResult::new("explored");
        let batch: Vec<Member> = (0..size).map(|p| member(p, 1, d, "z")).collect();
        let sts: Vec<RangeStatement<F>> = batch.iter().map(|m| m.st.clone()).collect();
        let run = |dev: Option<(usize, usize)>| {
            let proofs: Vec<_> = batch.iter().map(|m| F::from_bytes(&refbp::ref_encode(&m.rp)).expect("decodes")).collect();
            let mut ts: Vec<Transcript> = batch.iter().map(|m| m.ctx.transcript()).collect();
            merlin::observe::zero_rng_fills(dev);
            let obs = verify_observed(&sts, &proofs, &mut ts, mode);
            merlin::observe::zero_rng_fills(None);
            let residual = obs.residuals.iter().rev().find(|r| batch.iter().any(|m| r.coeff(m.marker) != Scalar::ZERO)).cloned();
            let weights: Option<Vec<Scalar>> = residual.as_ref().map(|r| batch.iter().map(|m| r.coeff(m.marker)).collect());
            let fills = obs.trace.iter().filter(|e| matches!(e.op, merlin::observe::Op::RngFill { .. })).count();
            (weights, trace_rng_scalars(&obs.trace), fills)
        };
        let (base_w, _, base_fills) = run(None);
        res.executions += 1;
        if base_w.is_none() {
            res.outcome = "no-compared-element(skipped)".into();
            return res;
        }
        for window in [1usize, 2] {
            // every transcript-RNG output of the call is a deviation point: the per-proof binding words and the weights
            for at in 0..base_fills {
                res.transitions += 1;
                res.executions += 1;
                let (w, draws, _) = run(Some((at, window)));
                let sub = format!("at={},len={}", at, window);
                let w = match w {
                    Some(w) => w,
                    None => {
                        res.violate(sub, "no element was compared when the weight generator returned a zero sample");
                        continue;
                    },
                };
                *res.outcome_counter("zero-output-deviations") += 1;
                let handed: std::collections::BTreeSet<[u8; 32]> = draws.iter().map(|x| x.to_bytes()).collect();
                for (i, wi) in w.iter().enumerate() {
                    res.validated += 1;
                    if *wi == Scalar::ZERO {
                        res.violate(format!("{}/weight[{}]", sub, i), "batch weight is zero after a zero sample");
                    } else if !handed.contains(&wi.to_bytes()) && !handed.contains(&(-wi).to_bytes()) {
                        // (the marker sits on B, whose coefficient in the compared element is the weight up to sign)
                        res.violate(format!("{}/weight[{}]", sub, i), "batch weight is not a value the generator handed out (a constant)");
                    }
                    if w[..i].contains(wi) {
                        res.violate(format!("{}/weight[{}]", sub, i), "two members share a batch weight after a zero sample");
                    }
                }
            }
        }
        res
    })
}

fn batch_keep_shift(_d: &mut Scalar) {}

pub fn run(rep: &mut Report) {
    rep.rule = "batches of 2..4 marked members (bit length 2, every extension degree 1..6, one mixed-aggregation batch, both verifying modes, \
                and batches in which every member occurs twice): weights read as \
                marker coefficients of the compared element; (1) every weight nonzero and the compared element == sum_i w_i x reference \
                relation_i; (2) every ordered pair (i,j) x every response scalar of either member: +1 changes w_i/w_j, and so does moving an amount between any two response scalars of one member; the same for members 256 / 257 of a 258-member batch (weights of a later chunk); (3) adaptive \
                cancellation histories of three runs for every ordered pair and blinding coordinate k, on otherwise valid members: \
                runs A and B read each member's factor from a single shifted response, run C submits offsets that would cancel if \
                those factors were used again (plain, identical proofs, reversed order; both modes) and must be rejected with a \
                nonzero G_k coordinate; (4) every window of 1 or 2 consecutive outputs of the weight generator replaced by the zero sample: weights \
                stay nonzero, distinct, and are values the generator handed out"
        .into();
    rep.assume("weights are observed over the free-module group; the weight derivation does not depend on the group backend");
    let thorough = rep.tier.thorough();
    let mut cases: Vec<Box<dyn Case>> = Vec::new();
    for d in 1..=6usize {
        for mode in [VerifyAction::VerifyOnly, VerifyAction::RecoverAndVerify] {
            for size in 2..=(if thorough { 4 } else { 3 }) {
                cases.push(weights_case(d, size, false, mode));
            }
            cases.push(weights_case(d, 3, true, mode));
            for layout in ["PPQQ", "PQPQ", "PQQP"] {
                cases.push(duplicates_case(d, layout, mode));
            }
        }
        let size = 3;
        for i in 0..size {
            for j in 0..size {
                if i == j {
                    continue;
                }
                for k in 0..d {
                    for variant in ["plain", "identical-proofs", "reversed-order"] {
                        cases.push(adaptive_case(d, size, i, j, k, variant));
                    }
                }
            }
        }
    }
    for mode in [VerifyAction::VerifyOnly, VerifyAction::RecoverAndVerify] {
        cases.push(late_chunk_case(mode));
        cases.push(chunk_case(mode, true));
    }
    for d in [1usize, 3] {
        for size in [2usize, 3] {
            for mode in [VerifyAction::VerifyOnly, VerifyAction::RecoverAndVerify] {
                cases.push(zero_weight_draw_case(d, size, mode));
            }
        }
    }
    rep.explore("C08", cases);
    rep.expect_sub_outcome("zero-output-deviations");
    rep.expect_outcome("explored");
    rep.expect_sub_outcome("ratio-comparisons");
    rep.expect_sub_outcome("adaptive-rejected");
}
