//! C18 Proving and verifying are pure, repeatable and thread-safe (DESIGN.md 3, C18)
//!
//! (a) every op history of length <= 3 (thorough 4) in one fresh process each, each op's result against its result
//!     alone in a fresh process; (b) every ordered pair of ops on threads sharing one parameter object, every schedule
//!     with <= 2 (thorough 3) preemptions; (c) racing first use of the cached generator arrays, one process per schedule.

use std::{
    io::Write,
    process::{Command, Stdio},
    sync::Arc,
};

use curve25519_dalek::{ristretto::RistrettoPoint, scalar::Scalar};
use serde_json::{json, Value};
use tari_bulletproofs_plus::{
    generators::pedersen_gens::PedersenGens,
    range_parameters::RangeParameters,
    range_proof::VerifyAction,
    ristretto::create_pedersen_gens_with_extension_degree,
};

use crate::{
    api::{ext, pc_gens_from, HRng, G},
    common::*,
    engine::{case, Case, CaseResult, Report},
    fg::{self, F},
    refbp::{self, Nonces},
    sched::{self, Body},
};

// ---------------------------------------------------------------------------------------------------------------
// (a) op histories, Ristretto (the instantiation that owns the process-wide cells)

pub const OPS: [&str; 23] = [
    "params(2,1)",
    "params(2,2)",
    "params(4,1)",
    "proveA",
    "proveB",
    "prove-bad-witness",
    "verify-valid",
    "verify-invalid",
    "seeded-recover",
    "batch2",
    "batch-malformed2",
    "batch-undecodable2",
    "pedersen6",
    "drop-all",
    "seeded-prove6",
    "recover6",
    "recover6-other-seed",
    "params(2,16)",
    "prove-refused-promise",
    "batch-mixed-sizes-two-defects",
    "batch-inconsistent-bit-lengths",
    "verify-valid-under-other-context",
    "batch-two-separately-built-params",
];

fn short(s: &str) -> String {
    if s.len() > 48 {
        format!("{}…({} chars)", &s[..48], s.len())
    } else {
        s.to_string()
    }
}

fn digest(parts: &[&[u8]]) -> Vec<u8> {
    use sha3::{Digest, Sha3_256};
    let mut h = Sha3_256::new();
    for p in parts {
        h.update((p.len() as u64).to_le_bytes());
        h.update(p);
    }
    h.finalize().to_vec()
}

fn params_digest<P: G>(p: &RangeParameters<P>) -> Vec<u8> {
    let mut all: Vec<u8> = Vec::new();
    all.extend(P::h_compressed(p));
    for g in P::g_compressed(p) {
        all.extend(g);
    }
    for g in P::gi_vec(p) {
        all.extend(g.g_compress());
    }
    for h in P::hi_vec(p) {
        all.extend(h.g_compress());
    }
    digest(&[&all])
}

fn result_bytes(r: &Result<Masks, tari_bulletproofs_plus::errors::ProofError>) -> Vec<u8> {
    match r {
        Ok(m) => {
            let mut out = b"OK".to_vec();
            for e in m {
                match e {
                    None => out.push(0),
                    Some(v) => {
                        out.push(1);
                        for s in v {
                            out.extend_from_slice(s.as_bytes());
                        }
                    },
                }
            }
            out
        },
        Err(e) => format!("ERR:{}", crate::api::err_name(e)).into_bytes(),
    }
}

fn verify_bytes<P: G>(
    sts: &[tari_bulletproofs_plus::range_statement::RangeStatement<P>],
    proofs: &[tari_bulletproofs_plus::range_proof::RangeProof<P>],
    ctxs: &[Ctx],
    mode: VerifyAction,
) -> Vec<u8> {
    let mut ts: Vec<merlin::Transcript> = ctxs.iter().map(|c| c.transcript()).collect();
    let r = P::verify(&mut ts, sts, proofs, mode).map(|v| v.into_iter().map(|m| m.map(|m| m.blindings().unwrap_or_default())).collect());
    result_bytes(&r)
}

/// One op of the history alphabet; `kept` holds objects that stay alive across ops
fn run_op<P: G>(op: &str, kept: &mut Vec<RangeParameters<P>>) -> Vec<u8> {
    let cfg_a = Cfg::new(2, 1, 1, 1);
    let cfg_b = Cfg::new(4, 2, 2, 2);
    match op {
        "params(2,1)" | "params(2,2)" | "params(4,1)" | "params(2,16)" => {
            let (n, c) = match op {
                "params(2,1)" => (2, 1),
                "params(2,2)" => (2, 2),
                // many parties: a constructor that derives the parties' chains out of order or concurrently shows here
                "params(2,16)" => (2, 16),
                _ => (4, 1),
            };
            let p = P::params(n, c, P::pc_gens(2)).unwrap();
            let d = params_digest(&p);
            kept.push(p);
            d
        },
        "proveA" | "proveB" => {
            let cfg = if op == "proveA" { cfg_a } else { cfg_b };
            let wit = Wit::default_for(&cfg);
            let built = build::<P>(&cfg, &wit).honest();
            let proof = lib_prove_honest(&built, &CTX_A, &mut HRng::chacha(1));
            P::to_bytes(&proof)
        },
        "prove-bad-witness" => {
            // the statement of proveA with a witness that does not open its commitment
            let wit = Wit::default_for(&cfg_a);
            let built = build::<P>(&cfg_a, &wit).honest();
            let mut bad = wit.clone();
            bad.blindings[0][0] += Scalar::ONE;
            let witness = witness_for(&bad).unwrap();
            let mut t = CTX_A.transcript();
            match P::prove(&mut t, &built.statement, &witness, &mut HRng::chacha(1)) {
                Ok(p) => [b"PROOF:".to_vec(), P::to_bytes(&p)].concat(),
                Err(e) => format!("ERR:{}", crate::api::err_name(&e)).into_bytes(),
            }
        },
        "batch-inconsistent-bit-lengths" | "batch-two-separately-built-params" => {
            // two members over separately built parameter sets that do NOT agree (bit lengths 2 and 4): the refusal, error text
            // included, is the result -- whatever parameter objects earlier calls built, compared and dropped.
            // The twin op runs the SAME statements (same allocation sizes in the same order, so that under the system allocator
            // the objects of a following op land on the addresses its objects were freed from) over two separately built sets
            // that DO agree: anything a batch remembers about "these two objects" is then stale for the next op (seed C18-N)
            let wa = Wit::default_for(&cfg_a);
            let ba = build::<P>(&cfg_a, &wa).honest();
            let cfg_w = if op == "batch-inconsistent-bit-lengths" { Cfg::new(4, 1, 1, 1) } else { Cfg::new(2, 1, 1, 1) };
            let ww = Wit::default_for(&cfg_w);
            let bw = build::<P>(&cfg_w, &ww).honest();
            let pa = lib_prove_honest(&ba, &CTX_A, &mut HRng::chacha(4));
            let pw = lib_prove_honest(&bw, &CTX_A, &mut HRng::chacha(5));
            let mut out = Vec::new();
            for order in [0, 1] {
                let (sts, proofs) = if order == 0 {
                    (vec![ba.statement.clone(), bw.statement.clone()], vec![P::proof_clone(&pa), P::proof_clone(&pw)])
                } else {
                    (vec![bw.statement.clone(), ba.statement.clone()], vec![P::proof_clone(&pw), P::proof_clone(&pa)])
                };
                let mut ts = vec![CTX_A.transcript(), CTX_A.transcript()];
                out.extend(match P::verify(&mut ts, &sts, &proofs, VerifyAction::VerifyOnly) {
                    Ok(_) => b"OK;".to_vec(),
                    Err(e) => format!("{:?};", e).into_bytes(),
                });
            }
            out
        },
        "batch-mixed-sizes-two-defects" => {
            // members of two aggregation sizes, each with its own defect (an undecodable A in the single, an undecodable B in
            // the aggregate): WHICH error comes back is part of the result
            let wa = Wit::default_for(&cfg_a);
            let ba = build::<P>(&cfg_a, &wa).honest();
            let cfg_c = Cfg::new(2, 2, 2, 1);
            let wc = Wit::default_for(&cfg_c);
            let bc = build::<P>(&cfg_c, &wc).honest();
            let pa = lib_prove_honest(&ba, &CTX_A, &mut HRng::chacha(4));
            let pc = lib_prove_honest(&bc, &CTX_A, &mut HRng::chacha(5));
            let mut ra = ref_proof_of(&pa).unwrap();
            ra.a = [0xffu8; 32];
            let mut rc = ref_proof_of(&pc).unwrap();
            rc.b = [0xfeu8; 32];
            let bad_a = P::from_bytes(&refbp::ref_encode(&ra)).unwrap();
            let bad_c = P::from_bytes(&refbp::ref_encode(&rc)).unwrap();
            let mut out = Vec::new();
            for order in [0, 1] {
                let (sts, proofs) = if order == 0 {
                    (vec![ba.statement.clone(), bc.statement.clone()], vec![P::proof_clone(&bad_a), P::proof_clone(&bad_c)])
                } else {
                    (vec![bc.statement.clone(), ba.statement.clone()], vec![P::proof_clone(&bad_c), P::proof_clone(&bad_a)])
                };
                let mut ts = vec![CTX_A.transcript(), CTX_A.transcript()];
                let r = P::verify(&mut ts, &sts, &proofs, VerifyAction::VerifyOnly);
                out.extend(match r {
                    Ok(_) => b"OK;".to_vec(),
                    Err(e) => format!("{:?};", e).into_bytes(),
                });
            }
            out
        },
        "prove-refused-promise" => {
            // a proving attempt that is refused late (promise above the value): what it leaves behind on this thread or in
            // the process must not reach later calls
            let cfg = Cfg::new(4, 1, 1, 2);
            let mut wit = Wit::default_for(&cfg);
            wit.values[0] = 3;
            wit.promises[0] = Some(9);
            let built = build::<P>(&cfg, &wit).honest();
            let mut t = CTX_A.transcript();
            match P::prove(&mut t, &built.statement, &built.witness, &mut HRng::chacha(1)) {
                Ok(p) => [b"PROOF:".to_vec(), P::to_bytes(&p)].concat(),
                Err(e) => format!("ERR:{}", crate::api::err_name(&e)).into_bytes(),
            }
        },
        "verify-valid-under-other-context" => {
            // the pair of "verify-valid", presented under a transcript it was not made under: an error, whatever was verified
            // before it
            let wit = Wit::default_for(&cfg_b);
            let built = build::<P>(&cfg_b, &wit).honest();
            let proof = lib_prove_honest(&built, &CTX_A, &mut HRng::chacha(2));
            verify_bytes(&[built.statement.clone()], &[proof], &[contexts()[3]], VerifyAction::VerifyOnly)
        },
        "verify-valid" | "verify-invalid" => {
            let wit = Wit::default_for(&cfg_b);
            let built = build::<P>(&cfg_b, &wit).honest();
            let proof = lib_prove_honest(&built, &CTX_A, &mut HRng::chacha(2));
            let st = if op == "verify-valid" {
                built.statement.clone()
            } else {
                let mut cs = built.commitments.clone();
                cs[1] = cs[1].g_add(built.params.h_base());
                restate(&built, cs, wit.promises.clone(), None).unwrap()
            };
            verify_bytes(&[st], &[proof], &[CTX_A], VerifyAction::VerifyOnly)
        },
        "seeded-recover" => {
            let mut wit = Wit::default_for(&cfg_a);
            wit.seed = Some(seed_scalar(1));
            let built = build::<P>(&cfg_a, &wit).honest();
            let proof = lib_prove_honest(&built, &CTX_A, &mut HRng::chacha(3));
            verify_bytes(&[built.statement.clone()], &[proof], &[CTX_A], VerifyAction::RecoverAndVerify)
        },
        "batch2" => {
            let wa = Wit::default_for(&cfg_a);
            let ba = build::<P>(&cfg_a, &wa).honest();
            let cfg_c = Cfg::new(2, 2, 2, 1);
            let wc = Wit::default_for(&cfg_c);
            let bc = build::<P>(&cfg_c, &wc).honest();
            let pa = lib_prove_honest(&ba, &CTX_A, &mut HRng::chacha(4));
            let pc = lib_prove_honest(&bc, &contexts()[3], &mut HRng::chacha(5));
            verify_bytes(&[ba.statement.clone(), bc.statement.clone()], &[pa, pc], &[CTX_A, contexts()[3]], VerifyAction::VerifyOnly)
        },
        "batch-malformed2" | "batch-undecodable2" => {
            // a batch that is abandoned half way: the second member has the wrong round count / an undecodable point
            let wa = Wit::default_for(&cfg_a);
            let ba = build::<P>(&cfg_a, &wa).honest();
            let pa = lib_prove_honest(&ba, &CTX_A, &mut HRng::chacha(4));
            let mut rp = ref_proof_of(&pa).unwrap();
            if op == "batch-malformed2" {
                let (l, r) = (rp.l[0], rp.r[0]);
                rp.l.push(l);
                rp.r.push(r);
            } else {
                rp.a1 = [0xffu8; 32];
            }
            let bad = P::from_bytes(&refbp::ref_encode(&rp)).unwrap();
            verify_bytes(&[ba.statement.clone(), ba.statement.clone()], &[pa, bad], &[CTX_A, CTX_A], VerifyAction::VerifyOnly)
        },
        "seeded-prove6" => {
            // every nonce index in use: degree 6, two rounds, seed-derived nonces
            let cfg = Cfg::new(4, 1, 1, 6);
            let mut wit = Wit::default_for(&cfg);
            wit.seed = Some(seed_scalar(6));
            let built = build::<P>(&cfg, &wit).honest();
            let proof = lib_prove_honest(&built, &CTX_A, &mut HRng::chacha(7));
            P::to_bytes(&proof)
        },
        "recover6" | "recover6-other-seed" => {
            // recovery from a proof this process did not make (the reference prover made it), in both recovering modes
            let cfg = Cfg::new(4, 1, 1, 6);
            let (mut wit, bytes) = ref_made_proof_seeded(4, 6, Some(seed_scalar(6)));
            if op == "recover6-other-seed" {
                wit.seed = Some(seed_scalar(16));
            }
            let built = build::<P>(&cfg, &wit).honest();
            let mut out = Vec::new();
            for mode in [VerifyAction::RecoverOnly, VerifyAction::RecoverAndVerify] {
                match P::from_bytes(&bytes) {
                    Ok(proof) => out.extend(verify_bytes(&[built.statement.clone()], &[proof], &[CTX_A], mode)),
                    Err(e) => out.extend(format!("DECODE-ERR:{}", crate::api::err_name(&e)).into_bytes()),
                }
            }
            out
        },
        "pedersen6" => {
            let pc = P::pc_gens(6);
            let mut all = Vec::new();
            all.extend(pc.h_base.g_compress());
            for g in &pc.g_base_vec {
                all.extend(g.g_compress());
            }
            all
        },
        "drop-all" => {
            kept.clear();
            b"dropped".to_vec()
        },
        _ => panic!("unknown op"),
    }
}

/// `bppmc child hist i,j,k`: run the op history in this fresh process, print one hex result per op
pub fn child_hist(args: &[String]) -> i32 {
    let seq: Vec<usize> = args.first().map(|s| s.split(',').filter(|x| !x.is_empty()).map(|x| x.parse().unwrap()).collect()).unwrap_or_default();
    let mut kept: Vec<RangeParameters<RistrettoPoint>> = Vec::new();
    let mut out = Vec::new();
    for i in seq {
        let r = catch(|| run_op::<RistrettoPoint>(OPS[i], &mut kept));
        out.push(match r {
            Ok(b) => fg::hex(&b),
            Err(p) => format!("PANIC:{}", p),
        });
    }
    let mut o = std::io::stdout();
    let _ = writeln!(o, "{}", serde_json::to_string(&out).unwrap());
    0
}

fn hist_in_child(seq: &[usize]) -> Result<Vec<String>, String> {
    let exe = std::env::current_exe().map_err(|e| e.to_string())?;
    hist_in_child_of(&exe, seq)
}

/// The other build of this harness + library (run.sh: `BPPMC_OTHER_BUILD`), if there is one
fn other_build() -> Option<std::path::PathBuf> {
    let p = std::path::PathBuf::from(std::env::var("BPPMC_OTHER_BUILD").ok()?);
    if p.is_file() {
        Some(p)
    } else {
        None
    }
}

fn hist_in_child_of(exe: &std::path::Path, seq: &[usize]) -> Result<Vec<String>, String> {
    let p: Vec<String> = seq.iter().map(|x| x.to_string()).collect();
    let out = Command::new(exe)
        .args(["child", "hist", &p.join(",")])
        .stdin(Stdio::null())
        .stderr(Stdio::null())
        .output()
        .map_err(|e| e.to_string())?;
    let text = String::from_utf8_lossy(&out.stdout);
    let line = text.lines().last().ok_or_else(|| format!("child produced no output (status {:?})", out.status))?;
    serde_json::from_str::<Vec<String>>(line).map_err(|e| e.to_string())
}

fn history_cases(depth: usize, baseline: Arc<Vec<String>>) -> Vec<Box<dyn Case>> {
    let mut cases: Vec<Box<dyn Case>> = Vec::new();
    let mut frontier: Vec<Vec<usize>> = vec![vec![]];
    for _ in 0..depth {
        let mut next = Vec::new();
        for s in &frontier {
            for k in 0..OPS.len() {
                let mut t = s.clone();
                t.push(k);
                next.push(t);
            }
        }
        for seq in &next {
            let seq = seq.clone();
            let baseline = baseline.clone();
            let name: Vec<&str> = seq.iter().map(|k| OPS[*k]).collect();
            cases.push(case(format!("history/{}", name.join(">")), move |_v| {
                let mut res = CaseResult::new("identical");
                res.transitions = seq.len() as u64;
                res.executions = seq.len() as u64;
                match hist_in_child(&seq) {
                    Err(e) => res.machinery_error(format!("history child failed: {}", e)),
                    Ok(results) => {
                        if results.len() != seq.len() {
                            res.machinery_error("history child returned the wrong number of results");
                        }
                        for (i, (op, r)) in seq.iter().zip(results.iter()).enumerate() {
                            res.validated += 1;
                            if *r != baseline[*op] {
                                res.outcome = "differs".into();
                                res.violate(
                                    format!("op{}", i),
                                    format!("result of {} after history {:?} differs from its result alone in a fresh process", OPS[*op], seq[..i].iter().map(|k| OPS[*k]).collect::<Vec<_>>()),
                                );
                            }
                        }
                    },
                }
                res
            }));
        }
        frontier = next;
    }
    cases
}

// ---------------------------------------------------------------------------------------------------------------
// (b) schedules on shared parameters (in-process; the cached arrays are already initialised)

pub const SOPS: [&str; 7] = ["proveA", "proveB", "verify-valid", "verify-invalid", "clone-drop-params", "build-other-capacity", "verify-long-two-defects"];
/// the ops paired with one another exhaustively (the long batch is paired with selected ops only)
const SOPS_PAIRED: usize = 6;

struct Shared<P: G> {
    params: RangeParameters<P>,
    valid: (tari_bulletproofs_plus::range_statement::RangeStatement<P>, Vec<u8>),
    invalid: (tari_bulletproofs_plus::range_statement::RangeStatement<P>, Vec<u8>),
}

/// A valid proof for the shared-parameter harness, made over a separate parameter object
fn shared_proof_bytes<P: G>() -> Vec<u8> {
    let cfg = Cfg::new(2, 1, 2, 1);
    let wit = Wit::default_for(&cfg);
    let other = P::params(cfg.n, cfg.c, P::pc_gens(cfg.d)).unwrap();
    let commitments = commitments_for(other.pc_gens(), &wit).unwrap();
    let st_other = P::statement(other, commitments, wit.promises.clone(), None).unwrap();
    let witness = witness_for(&wit).unwrap();
    let mut t = CTX_A.transcript();
    let proof = P::prove(&mut t, &st_other, &witness, &mut HRng::chacha(6)).unwrap();
    P::to_bytes(&proof)
}

fn shared_setup<P: G>(bytes: &[u8]) -> Arc<Shared<P>> {
    let cfg = Cfg::new(2, 1, 2, 1);
    let params = P::params(cfg.n, cfg.c, P::pc_gens(cfg.d)).unwrap();
    let wit = Wit::default_for(&cfg);
    let commitments = commitments_for(params.pc_gens(), &wit).unwrap();
    let st = P::statement(params.clone(), commitments.clone(), wit.promises.clone(), None).unwrap();
    // the proof to verify is made (once) over a separate parameter object, so that the shared one is never used before
    // the schedule starts (its first proving / verifying use is part of the explored interleavings)
    let bytes = bytes.to_vec();
    let mut cs = commitments.clone();
    cs[0] = cs[0].g_add(params.h_base());
    let bad = P::statement(params.clone(), cs, wit.promises.clone(), None).unwrap();
    Arc::new(Shared {
        params,
        valid: (st, bytes.clone()),
        invalid: (bad, bytes),
    })
}

fn shared_op<P: G>(op: &str, sh: &Shared<P>) -> Vec<u8> {
    match op {
        "proveA" | "proveB" => {
            let cfg = Cfg::new(2, if op == "proveA" { 1 } else { 2 }, 2, 1);
            let mut wit = Wit::default_for(&cfg);
            if op == "proveA" {
                wit.seed = Some(seed_scalar(2));
            }
            let commitments = commitments_for(sh.params.pc_gens(), &wit).unwrap();
            let st = P::statement(sh.params.clone(), commitments, wit.promises.clone(), wit.seed).unwrap();
            let witness = witness_for(&wit).unwrap();
            let mut t = CTX_A.transcript();
            let proof = P::prove(&mut t, &st, &witness, &mut HRng::chacha(7)).unwrap();
            P::to_bytes(&proof)
        },
        "verify-valid" | "verify-invalid" => {
            let (st, bytes) = if op == "verify-valid" { &sh.valid } else { &sh.invalid };
            let proof = P::from_bytes(bytes).unwrap();
            verify_bytes(&[st.clone()], &[proof], &[CTX_A], VerifyAction::VerifyOnly)
        },
        "verify-long-two-defects" => {
            // 160 members (below the chunk limit): member 10 is a well-formed proof of the wrong statement (caught by the final
            // check only), member 150 carries a point that does not decode. Which of the two errors is reported is part of
            // the call's result and must not depend on what other threads are doing.
            let len = 160usize;
            let mut sts = vec![sh.valid.0.clone(); len];
            sts[10] = sh.invalid.0.clone();
            let mut rp = refbp::ref_decode(&sh.valid.1).expect("wire form");
            rp.a1 = [0xffu8; 32];
            let bad_bytes = refbp::ref_encode(&rp);
            let proofs: Vec<_> = (0..len).map(|i| P::from_bytes(if i == 150 { &bad_bytes } else { &sh.valid.1 }).unwrap()).collect();
            let ctxs = vec![CTX_A; len];
            verify_bytes(&sts, &proofs, &ctxs, VerifyAction::VerifyOnly)
        },
        "clone-drop-params" => {
            let p2 = sh.params.clone();
            let d = params_digest(&p2);
            drop(p2);
            d
        },
        "build-other-capacity" => {
            let p2 = P::params(2, 4, P::pc_gens(1)).unwrap();
            params_digest(&p2)
        },
        _ => panic!("unknown op"),
    }
}

fn shared_schedule_case<P: G>(ops: Vec<usize>, bound: usize) -> Box<dyn Case> {
    shared_schedule_case_opts::<P>(ops, bound, false)
}

/// `alloc_points`: every heap allocation is a scheduling point too ("preempted anywhere once" when bound = 1)
fn shared_schedule_case_tagged<P: G>(ops: Vec<usize>, bound: usize, tag: &'static str) -> Box<dyn Case> {
    shared_schedule_case_full::<P>(ops, bound, false, tag)
}

fn shared_schedule_case_opts<P: G>(ops: Vec<usize>, bound: usize, alloc_points: bool) -> Box<dyn Case> {
    shared_schedule_case_full::<P>(ops, bound, alloc_points, if alloc_points { "/every-allocation" } else { "" })
}

fn shared_schedule_case_full<P: G>(ops: Vec<usize>, bound: usize, alloc_points: bool, gran: &'static str) -> Box<dyn Case> {
    let name: Vec<&str> = ops.iter().map(|k| SOPS[*k]).collect();
    case(format!("{}/shared-params{}/{}", P::NAME, gran, name.join("||")), move |_v| {
        fg::clear_intern();
        let mut res = CaseResult::new("identical");
        // sequential baseline: each op alone on a fresh shared parameter object, then the probe calls
        const PROBES: [&str; 2] = ["proveB", "verify-valid"];
        let proof_bytes = shared_proof_bytes::<P>();
        let baseline: Vec<Vec<u8>> = ops
            .iter()
            .map(|k| SOPS[*k])
            .chain(PROBES)
            .map(|op| {
                let sh = shared_setup::<P>(&proof_bytes);
                shared_op::<P>(op, &sh)
            })
            .collect();
        let ops2 = ops.clone();
        let intern = fg::intern_handle();
        // one execution: fresh shared objects, the racing ops under the schedule, then the probes sequentially on the
        // same objects ("no call observes state left behind by another")
        let run_one = |prefix: &[usize]| -> sched::Execution {
            fg::set_intern(intern.clone());
            let sh = shared_setup::<P>(&proof_bytes);
            let bodies: Vec<Body> = ops2
                .iter()
                .map(|k| {
                    let sh = sh.clone();
                    let op = SOPS[*k];
                    Box::new(move || shared_op::<P>(op, &sh)) as Body
                })
                .collect();
            let mut x = sched::run_execution_opts(bodies, prefix, true, Some(intern.clone()), alloc_points);
            for op in PROBES {
                x.results.push(catch(|| shared_op::<P>(op, &sh)));
            }
            x
        };
        // replay determinism of the harness itself
        let x0 = run_one(&[]);
        let x1 = run_one(&x0.choices());
        if x0.results != x1.results || x0.choices() != x1.choices() {
            if !crate::engine::exclusive() {
                // other cases run in this process at the same time: process-wide state in the subject would explain it.
                // Ask for a rerun with nothing else running.
                res.retry_exclusive = true;
                res.outcome = "rerun-requested".into();
                return res;
            }
            res.machinery_error("replaying the default schedule is not deterministic");
            return res;
        }
        let stats = sched::explore(
            bound,
            if crate::engine::exclusive() { 1 } else { 2 },
            |prefix| Ok(run_one(prefix)),
            |x| {
                for (t, r) in x.results.iter().enumerate() {
                    let name = if t < ops.len() { SOPS[ops[t]].to_string() } else { format!("probe {} after the schedule", PROBES[t - ops.len()]) };
                    match r {
                        Err(p) => return Err(format!("thread {} ({}) panicked: {}", t, name, p)),
                        Ok(b) if *b != baseline[t] => return Err(format!("call {} ({}) result differs from the same call made alone", t, name)),
                        _ => {},
                    }
                }
                Ok("identical".into())
            },
        );
        res.extra_states = stats.schedules;
        res.transitions = stats.transitions;
        res.executions = stats.schedules * ops.len() as u64;
        res.validated = stats.schedules;
        *res.outcome_counter("schedules-explored") += stats.schedules;
        *res.outcome_counter("schedules-with-a-blocked-thread(uncontrolled)") += stats.stolen;
        *res.outcome_counter(&format!("max-points:{}", stats.max_points / 10 * 10)) += 1;
        for (k, v) in stats.violations.into_iter().take(5) {
            res.outcome = "differs".into();
            res.violate(k, v);
        }
        for m in stats.machinery.into_iter().take(3) {
            res.machinery_error(m);
        }
        if stats.schedules <= 1 && ops.len() > 1 {
            res.machinery_error("vacuous schedule exploration (no scheduling point reached)");
        }
        res.sample = Some(json!({"ops": ops.iter().map(|k| SOPS[*k]).collect::<Vec<_>>(), "schedules": stats.schedules, "max_points": stats.max_points, "preemption_bound": bound}));
        res
    })
}

// ---------------------------------------------------------------------------------------------------------------
// (c) first-use race harnesses (run in fresh child processes by sched::explore_first_use)

fn pedersen_bytes(pc: &PedersenGens<RistrettoPoint>) -> Vec<u8> {
    let mut all = Vec::new();
    all.extend(pc.h_base.compress().to_bytes());
    all.extend(pc.h_base_compressed.to_bytes());
    for g in &pc.g_base_vec {
        all.extend(g.compress().to_bytes());
    }
    for g in &pc.g_base_compressed_vec {
        all.extend(g.to_bytes());
    }
    all
}

/// The reference derivation of what `create_pedersen_gens_with_extension_degree(d)` must return (no library statics)
fn ref_pedersen(d: usize) -> PedersenGens<RistrettoPoint> {
    let h = curve25519_dalek::constants::RISTRETTO_BASEPOINT_POINT;
    let g: Vec<RistrettoPoint> = (0..d).map(refbp::ref_masking_basepoint::<RistrettoPoint>).collect();
    pc_gens_from(h, g)
}

/// A proof made by the reference prover under the reference generators (touches no library static)
fn ref_made_proof(n: usize, d: usize) -> (Wit, Vec<u8>) {
    ref_made_proof_seeded(n, d, None)
}

/// A proof made by the reference prover (no library state is touched); with a seed its nonces are the seed-derived ones
fn ref_made_proof_seeded(n: usize, d: usize, seed: Option<Scalar>) -> (Wit, Vec<u8>) {
    let cfg = Cfg::new(n, 1, 1, d);
    let mut wit = Wit::default_for(&cfg);
    wit.seed = seed;
    let pc = ref_pedersen(d);
    let gens = refbp::ref_gens::<RistrettoPoint>(n, 1);
    let commitments: Vec<RistrettoPoint> = wit
        .values
        .iter()
        .zip(wit.blindings.iter())
        .map(|(v, r)| {
            let mut acc = pc.h_base * Scalar::from(*v);
            for (k, x) in r.iter().enumerate() {
                acc += pc.g_base_vec[k] * x;
            }
            acc
        })
        .collect();
    let rst = refbp::RefStatement {
        n,
        h: pc.h_base,
        g: pc.g_base_vec.clone(),
        gi: gens.0,
        hi: gens.1,
        commitments,
        promises: wit.promises.clone(),
    };
    let nonces = if let Some(sd) = &seed {
        Nonces::from_seed(sd, cfg.rounds(), d, wide_scalar("rr1", 0, 0), wide_scalar("rs1", 0, 0))
    } else {
        Nonces {
        alpha: (0..d).map(|k| wide_scalar("ra", k as u64, 0)).collect(),
        dl: (0..cfg.rounds()).map(|j| (0..d).map(|k| wide_scalar("rl", j as u64, k as u64)).collect()).collect(),
        dr: (0..cfg.rounds()).map(|j| (0..d).map(|k| wide_scalar("rr", j as u64, k as u64)).collect()).collect(),
        delta: (0..d).map(|k| wide_scalar("rd", k as u64, 0)).collect(),
        eta: (0..d).map(|k| wide_scalar("re", k as u64, 0)).collect(),
        r: wide_scalar("rr1", 0, 0),
        s: wide_scalar("rs1", 0, 0),
        }
    };
    let digits = refbp::honest_digits(n, &wit.values, &wit.promises).unwrap();
    let mut t = CTX_A.transcript();
    let out = refbp::ref_prove(&mut t, &rst, &digits, &wit.blindings, &nonces);
    (wit, refbp::ref_encode(&out.proof))
}

pub fn child_bodies(name: &str) -> Option<Vec<Body>> {
    let gens_body = |d: usize| -> Body { Box::new(move || pedersen_bytes(&create_pedersen_gens_with_extension_degree(ext(d)))) };
    let params_body = || -> Body {
        Box::new(move || {
            let p = RangeParameters::init(2, 1, create_pedersen_gens_with_extension_degree(ext(2))).unwrap();
            params_digest::<RistrettoPoint>(&p)
        })
    };
    let prove_body = || -> Body {
        Box::new(move || {
            // the prover works at degree 2, the verifier at degree 1: the racing first uses ask for different prefixes of
            // the cached arrays
            let cfg = Cfg::new(2, 1, 1, 2);
            let wit = Wit::default_for(&cfg);
            let pc = create_pedersen_gens_with_extension_degree(ext(2));
            let built = build_with_pc::<RistrettoPoint>(&cfg, &wit, pc).honest();
            let proof = lib_prove_honest(&built, &CTX_A, &mut HRng::chacha(8));
            RistrettoPoint::to_bytes(&proof)
        })
    };
    let verify_body_n = |n: usize| -> Body {
        let (wit, bytes) = ref_made_proof(n, 1);
        Box::new(move || {
            let cfg = Cfg::new(n, 1, 1, 1);
            let pc = create_pedersen_gens_with_extension_degree(ext(1));
            let built = build_with_pc::<RistrettoPoint>(&cfg, &wit, pc).honest();
            let proof = RistrettoPoint::from_bytes(&bytes).unwrap();
            verify_bytes(&[built.statement.clone()], &[proof], &[CTX_A], VerifyAction::VerifyOnly)
        })
    };
    let verify_body = || -> Body {
        let (wit, bytes) = ref_made_proof(2, 1);
        Box::new(move || {
            let cfg = Cfg::new(2, 1, 1, 1);
            let pc = create_pedersen_gens_with_extension_degree(ext(1));
            let built = build_with_pc::<RistrettoPoint>(&cfg, &wit, pc).honest();
            let proof = RistrettoPoint::from_bytes(&bytes).unwrap();
            verify_bytes(&[built.statement.clone()], &[proof], &[CTX_A], VerifyAction::VerifyOnly)
        })
    };
    Some(match name {
        "gens-2" => vec![gens_body(6), gens_body(1)],
        "gens-3" => vec![gens_body(6), gens_body(1), params_body()],
        "prove-verify" => vec![prove_body(), verify_body()],
        // two verifications racing at first use, with different bit lengths
        "verify-verify" => vec![verify_body_n(2), verify_body_n(16)],
        "prove-gens-verify" => vec![prove_body(), gens_body(3), verify_body()],
        _ => return None,
    })
}

/// Calls made sequentially after the racing threads of a first-use harness have finished ("no call observes state left
/// behind by another"): every degree of the commitment generators, in an order that revisits the racing degrees
pub fn child_probes(_name: &str) -> Vec<Body> {
    [1usize, 6, 3, 1, 2]
        .into_iter()
        .map(|d| Box::new(move || pedersen_bytes(&create_pedersen_gens_with_extension_degree(ext(d)))) as Body)
        .collect()
}

pub fn probe_expectations() -> Vec<Option<Vec<u8>>> {
    [1usize, 6, 3, 1, 2].into_iter().map(|d| Some(pedersen_bytes(&ref_pedersen(d)))).collect()
}

/// Per-thread expected result from the reference derivation, where one exists
pub fn expected_results(name: &str) -> Vec<Option<Vec<u8>>> {
    match name {
        "gens-2" => [vec![Some(pedersen_bytes(&ref_pedersen(6))), Some(pedersen_bytes(&ref_pedersen(1)))], probe_expectations()].concat(),
        "gens-3" => [vec![Some(pedersen_bytes(&ref_pedersen(6))), Some(pedersen_bytes(&ref_pedersen(1))), None], probe_expectations()].concat(),
        "prove-verify" => [vec![None, Some(b"OK\x00".to_vec())], probe_expectations()].concat(),
        "verify-verify" => [vec![Some(b"OK\x00".to_vec()), Some(b"OK\x00".to_vec())], probe_expectations()].concat(),
        "prove-gens-verify" => [vec![None, Some(pedersen_bytes(&ref_pedersen(3))), Some(b"OK\x00".to_vec())], probe_expectations()].concat(),
        _ => vec![],
    }
}

// ---------------------------------------------------------------------------------------------------------------

/// Which shared mutable state exists in the library's sources (completeness of the interception set)
fn source_scan() -> Value {
    let mut hits: Vec<Value> = Vec::new();
    let pats = ["static ", "unsafe", "thread_local!", "Atomic", "Mutex", "RwLock", "RefCell", "Cell<", "OnceCell", "lazy_static", "OnceLock"];
    fn walk(dir: &std::path::Path, out: &mut Vec<std::path::PathBuf>) {
        if let Ok(rd) = std::fs::read_dir(dir) {
            for e in rd.flatten() {
                let p = e.path();
                if p.is_dir() {
                    walk(&p, out);
                } else if p.extension().map(|x| x == "rs").unwrap_or(false) {
                    out.push(p);
                }
            }
        }
    }
    let mut files = Vec::new();
    walk(&std::path::Path::new(&crate::engine::repo_dir()).join("src"), &mut files);
    files.sort();
    for f in files {
        if f.ends_with("verif_hooks.rs") {
            continue;
        }
        if let Ok(text) = std::fs::read_to_string(&f) {
            for (ln, line) in text.lines().enumerate() {
                let t = line.trim_start();
                if t.starts_with("#[cfg(test)]") {
                    break; // test modules close every file of this crate and are not part of the library
                }
                if t.starts_with("//") || t.starts_with("use ") {
                    continue;
                }
                for p in pats {
                    if t.contains(p) && !t.contains("&'static") {
                        hits.push(json!({"file": f.display().to_string(), "line": ln + 1, "pattern": p, "text": t.chars().take(100).collect::<String>()}));
                        break;
                    }
                }
            }
        }
    }
    json!(hits)
}

pub fn run(rep: &mut Report) {
    rep.rule = "(a) every sequence over the 23-op alphabet {a batch over two separately built parameter sets that agree, run with the same statements and allocation pattern as the disagreeing batch so that the next op's objects reuse its addresses, the valid pair verified under a transcript it was not made under, a batch over two parameter sets that disagree on the bit length (the error text is the result), a batch of two aggregation sizes with two different defects (the full error text is the result), a prove refused for its promise, build params for 16 parties, degree-6 seeded prove, recovery (right / other seed) from a degree-6 proof made elsewhere, build params x3, prove A/B, prove with a witness that does not open the commitment, verify valid/invalid, seeded recover, batch of two, batch abandoned at \
                its second member (wrong round count / undecodable point), pedersen gens, drop-all} of length <= 3 (thorough 4), one fresh process per sequence, each op's serialised result against \
                its result alone in a fresh process (and a second fresh process); (a') every op alone in a fresh process of the other build of the same sources (debug assertions and overflow checks off), against the same baseline; (b) every pair (thorough: also triples) of ops {prove A, \
                prove B, verify valid, verify invalid, clone+drop params, build other capacity} on threads sharing one parameter object (plus a 160-member batch with two different defects racing a short verification, one preemption), \
                every schedule with <= 2 (thorough 3) preemptions over the merlin / group-backend scheduling points, on F and Ristretto; \
                (c) racing first use of the cached generator arrays by a prove and a verify, one fresh process per schedule"
        .into();
    rep.assume("interleavings inside once_cell, Arc and curve25519-dalek are those crates' contracts; scheduling points are the group, transcript and once-cell seams");
    let thorough = rep.tier.thorough();
    sched::install_hooks();
    // quick: scheduling points at challenge draws, transcript-RNG finalisation, the once-cells and the shared
    // precomputed table; thorough: at every transcript and group operation
    sched::set_fine(false);
    // the cached arrays of this process are initialised before any in-process schedule exploration
    let _ = create_pedersen_gens_with_extension_degree(ext(6));
    let scan = source_scan();
    let unexpected: Vec<&Value> = scan
        .as_array()
        .unwrap()
        .iter()
        .filter(|h| !(h["file"].as_str().unwrap_or("").ends_with("ristretto.rs") && h["text"].as_str().unwrap_or("").contains("OnceCell")))
        .collect();
    rep.note("shared_state_source_scan", scan.clone());
    rep.note(
        "shared_state_warnings",
        json!(unexpected.iter().map(|h| format!("scheduler may not own this state: {}:{} {}", h["file"], h["line"], h["text"])).collect::<Vec<_>>()),
    );
    for w in &unexpected {
        println!("[C18] warning: scheduler may not own this state: {}:{} {}", w["file"], w["line"], w["text"]);
    }

    // (a)
    let mut baseline: Vec<String> = Vec::new();
    for k in 0..OPS.len() {
        match (hist_in_child(&[k]), hist_in_child(&[k])) {
            (Ok(a), Ok(b)) if a == b && a.len() == 1 => {
                if a[0].starts_with("PANIC") {
                    rep.machinery.push(format!("baseline op {} panicked: {}", OPS[k], a[0]));
                }
                baseline.push(a[0].clone());
            },
            (Ok(_), Ok(_)) => {
                rep.violations.push((format!("C18/cross-process/{}", OPS[k]), format!("op {} gives different results in two fresh processes", OPS[k])));
                baseline.push(String::new());
            },
            (a, b) => {
                rep.machinery.push(format!("baseline child failed: {:?} {:?}", a.err(), b.err()));
                baseline.push(String::new());
            },
        }
    }
    rep.validated += OPS.len() as u64;
    // (a') the same op alone in a fresh process of the OTHER build of the same sources (debug assertions and overflow checks
    // off / on): the build profile is neither an argument nor the RNG stream
    match other_build() {
        None => rep.note("cross_build", json!("not run: BPPMC_OTHER_BUILD is not set (run.sh sets it)")),
        Some(exe) => {
            let mut compared = 0u64;
            for k in 0..OPS.len() {
                if baseline[k].is_empty() {
                    continue;
                }
                match hist_in_child_of(&exe, &[k]) {
                    Ok(a) if a.len() == 1 => {
                        compared += 1;
                        if a[0] != baseline[k] {
                            rep.violations.push((
                                format!("C18/cross-build/{}", OPS[k]),
                                format!(
                                    "op {} alone in a fresh process gives different results in the two builds of the same sources (debug assertions and overflow checks on / off): {} vs {}",
                                    OPS[k],
                                    short(&baseline[k]),
                                    short(&a[0])
                                ),
                            ));
                        }
                    },
                    other => rep.machinery.push(format!("cross-build child failed for {}: {:?}", OPS[k], other.err())),
                }
            }
            rep.validated += compared;
            rep.note("cross_build", json!({"other_build": exe.display().to_string(), "ops_compared": compared}));
        },
    }
    let t0 = rep.wall();
    rep.explore("C18", history_cases(if thorough { 4 } else { 3 }, Arc::new(baseline)));
    let t1 = rep.wall();

    // (b)
    let bound = if thorough { 3 } else { 2 };
    let mut cases: Vec<Box<dyn Case>> = Vec::new();
    // unordered pairs: with two threads and a free first choice, the schedules of (a, b) and (b, a) are the same
    // interleavings up to renaming the threads, and the preemption count is symmetric
    for a in 0..SOPS_PAIRED {
        for b in a..SOPS_PAIRED {
            // coarse scheduling points (challenge draws, RNG finalisation, shared table, once-cell events): bound 2 / 3
            cases.push(shared_schedule_case::<F>(vec![a, b], bound));
            cases.push(shared_schedule_case::<RistrettoPoint>(vec![a, b], bound));
            // finest granularity: a preemption at any heap allocation, once
            cases.push(shared_schedule_case_opts::<RistrettoPoint>(vec![a, b], 1, true));
            if thorough {
                cases.push(shared_schedule_case_opts::<F>(vec![a, b], 1, true));
                for c in [0usize, 2, 5] {
                    cases.push(shared_schedule_case::<F>(vec![a, b, c], 2));
                }
            }
        }
    }
    // a long batch with two different defects racing a short verification (and, thorough, a prove / itself): one preemption
    // anywhere at the coarse points of either call
    cases.push(shared_schedule_case_tagged::<F>(vec![6, 2], 1, "/long-batch"));
    if thorough {
        cases.push(shared_schedule_case_tagged::<F>(vec![6, 0], 1, "/long-batch"));
        cases.push(shared_schedule_case_tagged::<F>(vec![6, 6], 1, "/long-batch"));
        cases.push(shared_schedule_case_tagged::<RistrettoPoint>(vec![6, 2], 1, "/long-batch"));
    }
    rep.explore("C18", cases);
    if thorough {
        // every transcript operation and every group operation a scheduling point, bound 2
        sched::set_fine(true);
        let mut fine: Vec<Box<dyn Case>> = Vec::new();
        for a in 0..SOPS_PAIRED {
            for b in a..SOPS_PAIRED {
                fine.push(shared_schedule_case_tagged::<F>(vec![a, b], 2, "/every-transcript-and-group-op"));
                fine.push(shared_schedule_case_tagged::<RistrettoPoint>(vec![a, b], 2, "/every-transcript-and-group-op"));
            }
        }
        rep.explore("C18", fine);
        sched::set_fine(false);
    }
    let t2 = rep.wall();

    // (c)
    sched::explore_first_use(rep, "C18", bound, thorough);
    let t3 = rep.wall();
    rep.note("phase_wall_s", json!({"baseline": t0, "histories": t1 - t0, "shared_param_schedules": t2 - t1, "first_use_schedules": t3 - t2}));
    println!("[C18] phases: baseline {:.1}s histories {:.1}s shared-params schedules {:.1}s first-use schedules {:.1}s", t0, t1 - t0, t2 - t1, t3 - t2);
    rep.expect_outcome("identical");
    rep.expect_sub_outcome("schedules-explored");
}
