//! C05 Statement binding: any single alteration of an accepted triple is rejected (DESIGN.md 3, C05)

use curve25519_dalek::ristretto::RistrettoPoint;
use serde_json::json;
use tari_bulletproofs_plus::{range_proof::VerifyAction, range_statement::RangeStatement};

use crate::{
    api::{pc_gens_from, HRng, G},
    common::*,
    engine::{case, Case, CaseResult, Report, Tier},
    fg::{self, F},
    mutate,
    refbp,
};

const VMODES: [VerifyAction; 2] = [VerifyAction::VerifyOnly, VerifyAction::RecoverAndVerify];

/// The pipeline from_bytes -> verify_batch must return Err (not Ok, not a panic)
fn must_reject<P: G>(st: &RangeStatement<P>, bytes: &[u8], ctx: &Ctx, sub: &str, res: &mut CaseResult) {
    res.transitions += 1;
    let proof = match catch(|| P::from_bytes(bytes)) {
        Ok(Ok(p)) => p,
        Ok(Err(_)) => {
            *res.outcome_counter("rejected-at-decode") += 1;
            return;
        },
        Err(p) => {
            res.violate(format!("{}/decode", sub), format!("decoder panicked: {}", p));
            return;
        },
    };
    for mode in VMODES {
        let obs = verify_observed_one(st, &proof, ctx, mode);
        res.executions += 1;
        res.validated += 1;
        *res.outcome_counter(&format!("verify:{}", obs.class())) += 1;
        if !obs.is_err() {
            res.violate(
                format!("{}/{}", sub, mode_name(mode)),
                format!("altered triple ({}) was not rejected with an error: {}", sub, obs.describe()),
            );
        }
    }
}

fn must_accept<P: G>(st: &RangeStatement<P>, bytes: &[u8], ctx: &Ctx, sub: &str, res: &mut CaseResult) {
    res.transitions += 1;
    let proof = match P::from_bytes(bytes) {
        Ok(p) => p,
        Err(_) => return,
    };
    for mode in VMODES {
        let obs = verify_observed_one(st, &proof, ctx, mode);
        res.executions += 1;
        *res.outcome_counter(&format!("allowed-alteration:{}", obs.class())) += 1;
        if !obs.is_ok() {
            res.violate(format!("{}/{}", sub, mode_name(mode)), format!("allowed alteration ({}) was rejected: {}", sub, obs.describe()));
        }
    }
}

pub fn base_witness(cfg: &Cfg, seeded: bool) -> Wit {
    let mut wit = Wit::default_for(cfg);
    // position 0 carries a non-trivial promise where the value allows, the last position none
    if wit.values[0] >= 2 {
        wit.promises[0] = Some(wit.values[0] / 2);
    } else if cfg.m == 1 && cfg.n > 1 {
        wit.values[0] = cfg.max_value() - 1;
        wit.promises[0] = Some(1);
    }
    if cfg.m > 1 {
        wit.promises[cfg.m - 1] = None;
    }
    if seeded {
        wit.seed = Some(seed_scalar(3));
    }
    wit
}

fn triple_case<P: G>(cfg: Cfg, seeded: bool, tier: Tier) -> Box<dyn Case> {
    case(format!("{}/{}/seeded={}", P::NAME, cfg.key(), seeded), move |_v| {
        fg::clear_intern();
        let mut res = CaseResult::new("explored");
        let wit = base_witness(&cfg, seeded);
        let built = build_cached::<P>(&cfg, &wit).honest();
        let ctx = CTX_A;
        let proof = lib_prove_honest(&built, &ctx, &mut HRng::chacha(21));
        // the base triple is accepted
        for mode in VMODES {
            let obs = verify_observed_one(&built.statement, &proof, &ctx, mode);
            res.executions += 1;
            if !obs.is_ok() {
                // nothing to alter: an honest triple that is not accepted is C01's finding, not this property's
                res.outcome = "base-triple-not-accepted(skipped)".into();
                return res;
            }
        }
        let bytes = P::to_bytes(&proof);
        let h = built.params.h_base().clone();
        let g0 = built.params.g_bases()[0].clone();
        let wire = refbp::ref_decode(&bytes);
        // ---- proof alterations (need a wire form: n*m = 1 proofs have none, see C15's known finding)
        if let Some(rp) = &wire {
            let reduced = !tier.thorough() && !P::IS_F && cfg.big_n() >= 512;
            for m in mutate::menu(rp, reduced) {
                if let Some(b) = mutate::apply::<P>(rp, &m, &h) {
                    if b == bytes {
                        continue;
                    }
                    must_reject(&built.statement, &b, &ctx, &format!("proof:{:?}", m), &mut res);
                }
            }
        } else {
            *res.outcome_counter("no-wire-form(n*m=1)") += 1;
        }
        // a companion triple (aggregation 1, same bit length and degree) to place the altered triple inside a batch
        let comp_cfg = Cfg::new(cfg.n, 1, 1, cfg.d);
        let comp_wit = Wit::default_for(&comp_cfg);
        let comp = build_cached::<P>(&comp_cfg, &comp_wit).honest();
        let comp_proof = lib_prove_honest(&comp, &CTX_A, &mut HRng::chacha(23));
        // in-batch contexts presuppose that the two unaltered triples verify together in either order (C03's business)
        let batch_baseline_ok = [true, false].iter().all(|first| {
            let (sts, proofs) = if *first {
                (vec![built.statement.clone(), comp.statement.clone()], vec![P::proof_clone(&proof), P::proof_clone(&comp_proof)])
            } else {
                (vec![comp.statement.clone(), built.statement.clone()], vec![P::proof_clone(&comp_proof), P::proof_clone(&proof)])
            };
            let mut ts = vec![ctx.transcript(), ctx.transcript()];
            verify_observed(&sts, &proofs, &mut ts, VerifyAction::VerifyOnly).is_ok()
        });
        if !batch_baseline_ok {
            *res.outcome_counter("in-batch-baseline-not-accepted(skipped)") += 1;
        }
        let proof_bytes_or_obj = |st: &RangeStatement<P>, sub: &str, res: &mut CaseResult, expect_ok: bool| {
            res.transitions += 1;
            // the altered triple inside a batch, first and last (as the largest member when m > 1)
            for altered_first in [true, false] {
                if !batch_baseline_ok {
                    break;
                }
                let (sts, proofs) = if altered_first {
                    (vec![st.clone(), comp.statement.clone()], vec![P::proof_clone(&proof), P::proof_clone(&comp_proof)])
                } else {
                    (vec![comp.statement.clone(), st.clone()], vec![P::proof_clone(&comp_proof), P::proof_clone(&proof)])
                };
                let mut ts = vec![ctx.transcript(), ctx.transcript()];
                let obs = verify_observed(&sts, &proofs, &mut ts, VerifyAction::VerifyOnly);
                res.executions += 1;
                *res.outcome_counter(&format!("in-batch:{}", obs.class())) += 1;
                if expect_ok && !obs.is_ok() {
                    res.violate(format!("{}/in-batch(first={})", sub, altered_first), format!("allowed alteration ({}) rejected inside a batch: {}", sub, obs.describe()));
                }
                if !expect_ok && !obs.is_err() {
                    res.violate(
                        format!("{}/in-batch(first={})", sub, altered_first),
                        format!("altered triple ({}) inside a 2-batch was not rejected with an error: {}", sub, obs.describe()),
                    );
                }
            }
            for mode in VMODES {
                let obs = verify_observed_one(st, &proof, &ctx, mode);
                res.executions += 1;
                res.validated += 1;
                *res.outcome_counter(&format!("statement-alteration:{}", obs.class())) += 1;
                if expect_ok && !obs.is_ok() {
                    res.violate(format!("{}/{}", sub, mode_name(mode)), format!("allowed alteration ({}) was rejected: {}", sub, obs.describe()));
                }
                if !expect_ok && !obs.is_err() {
                    res.violate(
                        format!("{}/{}", sub, mode_name(mode)),
                        format!("altered triple ({}) was not rejected with an error: {}", sub, obs.describe()),
                    );
                }
            }
        };
        // ---- commitments
        for j in 0..cfg.m {
            for (name, alt) in [
                ("+H", built.commitments[j].g_add(&h)),
                ("+G0", built.commitments[j].g_add(&g0)),
                ("identity", P::g_identity()),
            ] {
                let mut cs = built.commitments.clone();
                cs[j] = alt;
                if let Ok(st) = restate(&built, cs, wit.promises.clone(), wit.seed) {
                    proof_bytes_or_obj(&st, &format!("commitment[{}]{}", j, name), &mut res, false);
                }
            }
        }
        for a in 0..cfg.m {
            for b in (a + 1)..cfg.m {
                if built.commitments[a] == built.commitments[b] {
                    continue;
                }
                if !tier.thorough() && cfg.m > 4 && !(a == 0 || b == cfg.m - 1 || b == a + 1) {
                    continue;
                }
                let mut cs = built.commitments.clone();
                cs.swap(a, b);
                if let Ok(st) = restate(&built, cs, wit.promises.clone(), wit.seed) {
                    proof_bytes_or_obj(&st, &format!("commitments-swapped[{},{}]", a, b), &mut res, false);
                }
            }
        }
        // ---- promises
        for j in 0..cfg.m {
            let p = wit.promises[j];
            let mut alts: Vec<(String, Option<u64>, bool)> = Vec::new();
            match p {
                None => {
                    alts.push(("None->Some(1)".into(), Some(1), false));
                    alts.push(("None->Some(0)".into(), Some(0), true));
                },
                Some(x) => {
                    if x < cfg.max_value() {
                        alts.push(("+1".into(), Some(x + 1), false));
                    }
                    if x > 0 {
                        alts.push(("-1".into(), Some(x - 1), false));
                        alts.push(("Some->None".into(), None, false));
                    } else {
                        alts.push(("Some(0)->None".into(), None, true));
                    }
                },
            }
            for (name, alt, ok) in alts {
                let mut ps = wit.promises.clone();
                ps[j] = alt;
                if let Ok(st) = restate(&built, built.commitments.clone(), ps, wit.seed) {
                    proof_bytes_or_obj(&st, &format!("promise[{}]{}", j, name), &mut res, ok);
                }
            }
        }
        // ---- a promise vector of another length, if the statement constructor lets it through (C17 says it must not; whatever it
        // accepts is a statement the verifier answers with an error, not a panic and not Ok)
        for (name, ps) in [
            ("promises+None", [wit.promises.clone(), vec![None]].concat()),
            ("promises+Some(0)", [wit.promises.clone(), vec![Some(0)]].concat()),
            ("promises-last", wit.promises[..cfg.m - 1].to_vec()),
        ] {
            if let Ok(Ok(st)) = catch(|| restate(&built, built.commitments.clone(), ps, wit.seed)) {
                proof_bytes_or_obj(&st, &format!("promise-vector:{}", name), &mut res, false);
            }
        }
        // ---- bit length (parameters rebuilt)
        for n2 in [cfg.n / 2, cfg.n * 2] {
            if n2 == 0 || n2 > 64 {
                continue;
            }
            let params2 = P::params(n2, cfg.c, built.params.pc_gens().clone()).unwrap();
            // promises must still be constructible; the statement constructor does not look at them
            if let Ok(st) = P::statement(params2, built.commitments.clone(), wit.promises.clone(), wit.seed) {
                proof_bytes_or_obj(&st, &format!("bit-length={}", n2), &mut res, false);
            }
        }
        // ---- commitment generators (public fields of PedersenGens)
        let pc = built.params.pc_gens().clone();
        let mut gens_variants = vec![("H+=G0".to_string(), pc_gens_from(pc.h_base.g_add(&pc.g_base_vec[0]), pc.g_base_vec.clone()))];
        for k in 0..cfg.d {
            let mut g = pc.g_base_vec.clone();
            g[k] = g[k].g_add(&pc.h_base);
            gens_variants.push((format!("G{}+=H", k), pc_gens_from(pc.h_base.clone(), g)));
        }
        // a generator replaced by the identity element (consistently: point and encoding)
        gens_variants.push(("H=identity".to_string(), pc_gens_from(P::g_identity(), pc.g_base_vec.clone())));
        for k in [0usize, cfg.d - 1] {
            let mut g = pc.g_base_vec.clone();
            g[k] = P::g_identity();
            gens_variants.push((format!("G{}=identity", k), pc_gens_from(pc.h_base.clone(), g)));
            if cfg.d == 1 {
                break;
            }
        }
        // (A generator object whose point and cached encoding disagree is not "another commitment generator": such an object
        // is produced by no constructor. On the pinned tree the encoding of H is read from the first statement of a chunk only,
        // so an edited encoding on a later member goes unnoticed; outside this property, see DESIGN.md 10.4, wave 9.)
        for (name, pc2) in gens_variants {
            let params2 = match catch(|| P::params(cfg.n, cfg.c, pc2)) {
                Ok(Ok(p)) => p,
                Ok(Err(_)) => continue,
                Err(p) => {
                    res.violate(format!("generator:{}/params", name), format!("parameter construction panicked: {}", p));
                    continue;
                },
            };
            if let Ok(st) = P::statement(params2, built.commitments.clone(), wit.promises.clone(), wit.seed) {
                proof_bytes_or_obj(&st, &format!("generator:{}", name), &mut res, false);
            }
        }
        // (Statements are altered through `RangeStatement::init` only, as the property says: a statement whose public fields
        // were edited into a combination no constructor produces -- a promise vector of another length, a compressed
        // commitment list of another length, parameters with fewer parties than commitments -- is outside its scope. On the
        // pinned tree such a statement can make `verify_batch` panic in the multiscalar backend; see DESIGN.md 10.4, wave 7.)
        // ---- transcript initial state
        for ctx2 in contexts().into_iter().skip(1) {
            res.transitions += 1;
            for mode in VMODES {
                let obs = verify_observed_one(&built.statement, &proof, &ctx2, mode);
                res.executions += 1;
                *res.outcome_counter(&format!("context-alteration:{}", obs.class())) += 1;
                if !obs.is_err() {
                    res.violate(format!("context={}/{}", ctx2.key(), mode_name(mode)), format!("proof accepted under another transcript context: {}", obs.describe()));
                }
            }
        }
        // ---- transcript initial state of one member of a batch (first and last position)
        for ctx2 in [contexts()[1], contexts()[3]] {
            for altered_first in [true, false] {
                if !batch_baseline_ok {
                    break;
                }
                res.transitions += 1;
                let (sts, proofs, mut ts) = if altered_first {
                    (vec![built.statement.clone(), comp.statement.clone()], vec![P::proof_clone(&proof), P::proof_clone(&comp_proof)], vec![ctx2.transcript(), ctx.transcript()])
                } else {
                    (vec![comp.statement.clone(), built.statement.clone()], vec![P::proof_clone(&comp_proof), P::proof_clone(&proof)], vec![ctx.transcript(), ctx2.transcript()])
                };
                let obs = verify_observed(&sts, &proofs, &mut ts, VerifyAction::VerifyOnly);
                res.executions += 1;
                res.validated += 1;
                *res.outcome_counter(&format!("context-in-batch:{}", obs.class())) += 1;
                if !obs.is_err() {
                    res.violate(
                        format!("context={}/in-batch(first={})", ctx2.key(), altered_first),
                        format!("batch accepted although one member's transcript context was replaced: {}", obs.describe()),
                    );
                }
            }
        }
        // ---- seed presence never matters for the verdict of the unaltered triple (allowed alteration)
        if cfg.m == 1 {
            let st = restate(&built, built.commitments.clone(), wit.promises.clone(), if seeded { None } else { Some(seed_scalar(4)) }).unwrap();
            if wire.is_some() {
                must_accept(&st, &bytes, &ctx, "seed-toggled", &mut res);
            }
        }
        res.sample = Some(json!({"cfg": cfg.key(), "group": P::NAME, "alterations": res.transitions}));
        res
    })
}

/// thorough: all pairs of proof alterations for tiny configurations
fn pair_case<P: G>(cfg: Cfg) -> Box<dyn Case> {
    case(format!("{}/{}/pairs", P::NAME, cfg.key()), move |_v| {
        fg::clear_intern();
        let mut res = CaseResult::new("explored");
        let wit = base_witness(&cfg, false);
        let built = build_cached::<P>(&cfg, &wit).honest();
        let proof = lib_prove_honest(&built, &CTX_A, &mut HRng::chacha(22));
        let bytes = P::to_bytes(&proof);
        let h = built.params.h_base().clone();
        let rp = match refbp::ref_decode(&bytes) {
            Some(p) => p,
            None => return res,
        };
        let menu: Vec<_> = mutate::menu(&rp, false).into_iter().filter(|m| !matches!(m, mutate::Mut::ExtTag(_) | mutate::Mut::DropRound | mutate::Mut::DupRound | mutate::Mut::AppendRounds(_) | mutate::Mut::DegreeUp | mutate::Mut::DegreeDown)).collect();
        for (i, m1) in menu.iter().enumerate() {
            let b1 = match mutate::apply::<P>(&rp, m1, &h) {
                Some(b) => b,
                None => continue,
            };
            let rp1 = match refbp::ref_decode(&b1) {
                Some(p) => p,
                None => continue,
            };
            for m2 in menu.iter().skip(i + 1) {
                if let Some(b2) = mutate::apply::<P>(&rp1, m2, &h) {
                    if b2 == bytes {
                        continue;
                    }
                    must_reject(&built.statement, &b2, &CTX_A, &format!("pair:{:?}+{:?}", m1, m2), &mut res);
                }
            }
        }
        res
    })
}

/// Alterations of one member of a batch beyond the chunk limit (members 255, 256, 257 and the last)
fn long_batch_case<P: G>() -> Box<dyn Case> {
    case(format!("{}/long-batch-alterations", P::NAME), move |_v| {
        fg::clear_intern();
        let mut res = CaseResult::new("explored");
        let cfg = Cfg::new(2, 1, 1, 1);
        let len = 258usize;
        let mut sts = Vec::new();
        let mut proofs = Vec::new();
        let mut ctxs = Vec::new();
        let mut builts = Vec::new();
        for pos in 0..len {
            let mut wit = Wit::default_for(&cfg);
            wit.values[0] = (pos % 4) as u64;
            wit.blindings[0][0] = blinding(4000 + pos, 0);
            let built = build_cached::<P>(&cfg, &wit).honest();
            let ctx = contexts()[pos % 6];
            proofs.push(lib_prove_honest(&built, &ctx, &mut HRng::chacha(pos as u64)));
            sts.push(built.statement.clone());
            ctxs.push(ctx);
            builts.push(built);
        }
        let run = |sts: &[RangeStatement<P>], proofs: &[tari_bulletproofs_plus::range_proof::RangeProof<P>], ctxs: &[Ctx]| {
            let mut ts: Vec<merlin::Transcript> = ctxs.iter().map(|c| c.transcript()).collect();
            verify_observed(sts, proofs, &mut ts, VerifyAction::VerifyOnly)
        };
        let base = run(&sts, &proofs, &ctxs);
        res.executions += 1;
        if !base.is_ok() {
            res.outcome = "base-batch-not-accepted(skipped)".into();
            return res;
        }
        for pos in [0usize, 255, 256, 257] {
            // proof scalar
            let mut rp = ref_proof_of(&proofs[pos]).unwrap();
            rp.r1 += curve25519_dalek::scalar::Scalar::ONE;
            let mut p2: Vec<_> = proofs.iter().map(|p| P::proof_clone(p)).collect();
            p2[pos] = P::from_bytes(&refbp::ref_encode(&rp)).unwrap();
            // commitment
            let mut s2 = sts.clone();
            let mut cs = builts[pos].commitments.clone();
            cs[0] = cs[0].g_add(builts[pos].params.h_base());
            s2[pos] = restate(&builts[pos], cs, vec![None], None).unwrap();
            // promise
            let mut s3 = sts.clone();
            s3[pos] = restate(&builts[pos], builts[pos].commitments.clone(), vec![Some(1)], None).unwrap();
            // transcript context
            let mut c2 = ctxs.clone();
            c2[pos] = contexts()[(pos + 1) % 6];
            for (name, obs) in [
                ("proof scalar r1", run(&sts, &p2, &ctxs)),
                ("commitment", run(&s2, &proofs, &ctxs)),
                ("promise", run(&s3, &proofs, &ctxs)),
                ("transcript context", run(&sts, &proofs, &c2)),
            ] {
                res.executions += 1;
                res.validated += 1;
                res.transitions += 1;
                *res.outcome_counter(&format!("long-batch:{}", obs.class())) += 1;
                if !obs.is_err() {
                    res.violate(format!("member{}/{}", pos, name), format!("{}-member batch accepted although the {} of member {} was altered: {}", len, name, pos, obs.describe()));
                }
            }
        }
        res
    })
}

pub fn run(rep: &mut Report) {
    rep.rule = "configuration lattice x accepted triple (and a seeded one for m=1) x every component position x replacement alphabet: \
                proof scalars {+1, 0, negated, another scalar}, proof points {identity, undecodable, +H, another point, L<->R}, rounds \
                +/-1, every other extension tag, commitments {+H,+G0,identity, transpositions}, promises {+1,-1,None->1,Some->None}, bit \
                length {n/2,2n}, H+=G0, G_k+=H, other transcript contexts; allowed alterations (None<->Some(0), seed toggled) must still \
                verify; modes VerifyOnly and RecoverAndVerify; thorough adds all pairs of proof alterations for n*m <= 8"
        .into();
    let tier = rep.tier;
    let mut cases: Vec<Box<dyn Case>> = Vec::new();
    for cfg in lattice(tier.thorough()) {
        cases.push(triple_case::<F>(cfg, false, tier));
        cases.push(triple_case::<RistrettoPoint>(cfg, false, tier));
        if cfg.m == 1 {
            cases.push(triple_case::<F>(cfg, true, tier));
            cases.push(triple_case::<RistrettoPoint>(cfg, true, tier));
        }
        if tier.thorough() && cfg.big_n() <= 8 && cfg.big_n() >= 2 && cfg.c == cfg.m && cfg.d <= 2 {
            cases.push(pair_case::<F>(cfg));
        }
    }
    cases.push(long_batch_case::<F>());
    cases.push(long_batch_case::<RistrettoPoint>());
    rep.explore("C05", cases);
    rep.expect_outcome("explored");
    rep.expect_sub_outcome("verify:Err:VerificationFailed");
    rep.expect_sub_outcome("allowed-alteration:Ok");
}
