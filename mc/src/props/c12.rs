//! C12 Proof validity does not depend on generator capacity (DESIGN.md 3, C12)

use std::sync::Arc;

use curve25519_dalek::ristretto::RistrettoPoint;
use merlin::Transcript;
use serde_json::json;
use tari_bulletproofs_plus::{
    errors::ProofError,
    range_parameters::RangeParameters,
    range_proof::{RangeProof, VerifyAction},
    range_statement::RangeStatement,
};

const CTX_B: Ctx = Ctx {
    label: b"ctx-b",
    msg: Some(b"m1"),
};

use crate::{
    api::{HRng, G},
    common::*,
    engine::{case, Case, CaseResult, Report},
    fg::{self, F},
};

/// witness for aggregation `mm` (the seed only where recovery is defined)
fn wit_of(n: usize, mm: usize, c: usize, d: usize) -> (Cfg, Wit) {
    let cfg = Cfg::new(n, mm, c, d);
    let mut w = Wit::default_for(&cfg);
    if mm == 1 {
        w.seed = Some(seed_scalar(2));
    }
    // a non-zero promise where the value leaves room (capacity must not interact with the promise vector either)
    let last = mm - 1;
    if w.values[last] >= 1 {
        w.promises[last] = Some((w.values[last] + 1) / 2);
    }
    (cfg, w)
}

/// aggregation sizes other than `m` that a parameter object of capacity `c` can also serve: the smallest and the largest
fn other_sizes(m: usize, c: usize) -> Vec<usize> {
    let mut v = vec![1usize, c];
    v.dedup();
    v.retain(|x| *x != m);
    v
}

fn built_on<P: G>(params: &RangeParameters<P>, wit: &Wit) -> Result<Built<P>, ProofError> {
    let commitments = commitments_for(params.pc_gens(), wit)?;
    let statement = P::statement(params.clone(), commitments.clone(), wit.promises.clone(), wit.seed)?;
    Ok(Built {
        params: params.clone(),
        statement,
        witness: witness_for(wit)?,
        commitments,
    })
}

/// One (c_p, c_v) pair. Every parameter object is made inside the case, so what an object was used for before the call under
/// judgement is part of the case (a *use history*), not an accident of which case ran first:
///   baseline  prove and verify at the minimal capacity c = m on objects nothing else touches (if that fails the question
///             "does capacity matter" cannot be asked: skipped, C01 owns it)
///   fresh     prove on a fresh c_p object, verify on a fresh c_v object
///   v-used    the c_v object first verifies a valid proof of another aggregation size (smallest / largest it can serve)
///   p-used    the c_p object first proves another aggregation size
fn pair_case<P: G>(n: usize, m: usize, d: usize, cp: usize, cv: usize) -> Box<dyn Case> {
    case(format!("{}/n={},m={},d={}/c_p={},c_v={}", P::NAME, n, m, d, cp, cv), move |_v| {
        fg::clear_intern();
        let mut res = CaseResult::new("accepted");
        let (cfg_b, wit) = wit_of(n, m, m, d);
        let base = build::<P>(&cfg_b, &wit).honest();
        let proof_b = match lib_prove(&base, &CTX_A, &mut HRng::chacha(3)) {
            Ok(p) => p,
            Err(_) => {
                res.outcome = "prover-refused-at-minimal-capacity(skipped)".into();
                return res;
            },
        };
        res.executions += 1;
        let base_obs = [VerifyAction::VerifyOnly, VerifyAction::RecoverAndVerify].map(|mode| verify_observed_one(&base.statement, &proof_b, &CTX_A, mode));
        if !base_obs.iter().all(|o| o.is_ok()) {
            res.outcome = "not-accepted-at-minimal-capacity(skipped)".into();
            return res;
        }
        // parameters exist at the minimal capacity (the baseline used them): a power-of-two capacity the constructor refuses is a
        // capacity no verifier can have -- the capacity dimension this property owns
        for c in [cp, cv] {
            if let Ok(Err(e)) = catch(|| P::params(n, c, P::pc_gens(d))) {
                res.outcome = "parameters-refused".into();
                res.violate(
                    format!("params/capacity={}", c),
                    format!("parameters for {} bits exist at capacity {} but are refused at capacity {}: {}", n, m, c, crate::api::err_name(&e)),
                );
                return res;
            }
        }
        let fresh = |c: usize| P::params(n, c, P::pc_gens(d)).honest();
        // a valid proof of aggregation size mm, made at ITS minimal capacity, to be presented to another object
        let other_proof = |mm: usize| -> Option<(Wit, RangeProof<P>)> {
            let (cfg_o, wit_o) = wit_of(n, mm, mm, d);
            let b = build::<P>(&cfg_o, &wit_o).ok()?;
            let p = lib_prove(&b, &CTX_B, &mut HRng::chacha(5)).ok()?;
            Some((wit_o, p))
        };
        let mut judge = |res: &mut CaseResult, history: &str, st: &RangeStatement<P>, proof: &RangeProof<P>| {
            for (k, mode) in [VerifyAction::VerifyOnly, VerifyAction::RecoverAndVerify].into_iter().enumerate() {
                let obs = verify_observed_one(st, proof, &CTX_A, mode);
                res.executions += 1;
                res.validated += 1;
                res.transitions += 1;
                match (&obs.result, &base_obs[k].result) {
                    (Some(Ok(masks)), Some(Ok(base_masks))) => {
                        // differential: what is recovered under another capacity is what is recovered at the minimal one
                        // (whether that is the right mask is C09's question)
                        if masks != base_masks {
                            res.violate(
                                format!("{}/{}", history, mode_name(mode)),
                                "mask recovered under another capacity differs from the mask recovered at the minimal capacity",
                            );
                        }
                    },
                    _ => {
                        res.outcome = "rejected".into();
                        res.violate(
                            format!("{}/{}", history, mode_name(mode)),
                            format!(
                                "proof made with capacity {} rejected by a verifier with capacity {} (use history: {}; at capacity {} the same witness is proved and accepted): {}",
                                cp,
                                cv,
                                history,
                                m,
                                obs.describe()
                            ),
                        );
                    },
                }
            }
        };
        // fresh objects. The statement exists at the minimal capacity (the baseline used it): if it cannot be built over an object
        // of another capacity, the capacity is what makes the difference
        let pp = fresh(cp);
        let prover = match catch(|| built_on::<P>(&pp, &wit)) {
            Ok(Ok(b)) => b,
            other => {
                res.outcome = "statement-refused".into();
                res.violate(
                    "fresh/prover-statement",
                    format!("the statement (aggregation {}, seed {}) that is accepted at capacity {} is refused at capacity {}: {:?}", m, wit.seed.is_some(), m, cp, other.map(|r| r.map(|_| ()).map_err(|e| crate::api::err_name(&e)))),
                );
                return res;
            },
        };
        let proof = match catch(|| lib_prove(&prover, &CTX_A, &mut HRng::chacha(3))) {
            Ok(Ok(p)) => p,
            other => {
                res.outcome = "prover-refused".into();
                res.violate(
                    "fresh/prove",
                    format!("the prover refuses at capacity {} what it proves at capacity {}: {}", cp, m, match other { Ok(Err(e)) => format!("{:?}", e), Err(p) => format!("PANIC({})", p), _ => String::new() }),
                );
                return res;
            },
        };
        *res.outcome_counter(if P::to_bytes(&proof) == P::to_bytes(&proof_b) { "proof-bytes-equal-to-minimal-capacity-proof" } else { "proof-bytes-differ-from-minimal-capacity-proof" }) += 1;
        let vv = fresh(cv);
        let verifier = match catch(|| built_on::<P>(&vv, &wit)) {
            Ok(Ok(b)) => b,
            other => {
                res.outcome = "statement-refused".into();
                res.violate(
                    "fresh/verifier-statement",
                    format!("the statement (aggregation {}, seed {}) that is accepted at capacity {} is refused at capacity {}: {:?}", m, wit.seed.is_some(), m, cv, other.map(|r| r.map(|_| ()).map_err(|e| crate::api::err_name(&e)))),
                );
                return res;
            },
        };
        judge(&mut res, "fresh", &verifier.statement, &proof);
        // the verifier's object has served another aggregation size before
        for mm in other_sizes(m, cv) {
            let Some((wit_o, proof_o)) = other_proof(mm) else { continue };
            let vv = fresh(cv);
            let pre = built_on::<P>(&vv, &wit_o).honest();
            let _ = verify_observed_one(&pre.statement, &proof_o, &CTX_B, VerifyAction::VerifyOnly);
            let verifier = built_on::<P>(&vv, &wit).honest();
            judge(&mut res, &format!("verifier-object-first-verified-m={}", mm), &verifier.statement, &proof);
        }
        // the prover's object has served another aggregation size before
        for mm in other_sizes(m, cp) {
            let (_, wit_o) = wit_of(n, mm, cp, d);
            let pp = fresh(cp);
            let Ok(pre) = built_on::<P>(&pp, &wit_o) else { continue };
            let _ = catch(|| lib_prove(&pre, &CTX_B, &mut HRng::chacha(5)));
            let prover = built_on::<P>(&pp, &wit).honest();
            match catch(|| lib_prove(&prover, &CTX_A, &mut HRng::chacha(3))) {
                Ok(Ok(p)) => {
                    let vv = fresh(cv);
                    let verifier = built_on::<P>(&vv, &wit).honest();
                    judge(&mut res, &format!("prover-object-first-proved-m={}", mm), &verifier.statement, &p);
                },
                other => {
                    res.outcome = "prover-refused".into();
                    res.violate(
                        format!("prover-object-first-proved-m={}/prove", mm),
                        format!("the prover refuses at capacity {} (object used before for aggregation {}) what it proves at capacity {}: {}", cp, mm, m, match other { Ok(Err(e)) => format!("{:?}", e), Err(p) => format!("PANIC({})", p), _ => String::new() }),
                    );
                },
            }
        }
        // generator j of party i is the same point whatever capacity was requested
        // (how MANY generators an object exposes is C11's question; here every position both objects expose is compared)
        let pp = fresh(cp);
        let vv = fresh(cv);
        let (gp, hp) = (P::gi_vec(&pp), P::hi_vec(&pp));
        let (gv, hv) = (P::gi_vec(&vv), P::hi_vec(&vv));
        if gp.len() != n * cp || gv.len() != n * cv || hp.len() != n * cp || hv.len() != n * cv {
            res.binding_note("generators", "a parameter object exposes a number of vector generators other than bits*capacity (C11 owns this)");
        }
        let common = (n * cp.min(cv)).min(gp.len()).min(gv.len()).min(hp.len()).min(hv.len());
        res.validated += 1;
        if gp[..common] != gv[..common] || hp[..common] != hv[..common] {
            let first = (0..common).find(|i| gp.get(*i) != gv.get(*i) || hp.get(*i) != hv.get(*i));
            res.violate(
                "generators",
                format!("vector generators depend on the requested capacity (first difference at flat index {:?}, i.e. party {:?})", first, first.map(|i| i / n)),
            );
        }
        res.sample = Some(json!({"n": n, "m": m, "d": d, "c_p": cp, "c_v": cv, "histories": ["fresh", "verifier-object-first-verified-m=*", "prover-object-first-proved-m=*"]}));
        res
    })
}

const MK: [(usize, usize); 5] = [(1, 1), (1, 4), (2, 2), (2, 8), (4, 4)];

struct Tpl<P: G> {
    n: usize,
    d: usize,
    members: Vec<Vec<(RangeStatement<P>, RangeProof<P>, Ctx)>>,
    intern: Arc<std::sync::Mutex<std::collections::HashMap<[u8; 32], F>>>,
}

fn mixed_templates<P: G>(n: usize, d: usize, depth: usize) -> Tpl<P> {
    fg::clear_intern();
    let mut members = Vec::new();
    for pos in 0..depth {
        let mut row = Vec::new();
        for (m, c) in MK {
            let cfg = Cfg::new(n, m, c, d);
            let mut wit = Wit::default_for(&cfg);
            for j in 0..m {
                wit.values[j] = ((pos + 2 * j) as u64) & cfg.max_value();
            }
            let ctx = contexts()[pos % 6];
            let built = build_cached::<P>(&cfg, &wit).honest();
            let proof = lib_prove_honest(&built, &ctx, &mut HRng::chacha(200 + pos as u64));
            row.push((built.statement.clone(), proof, ctx));
        }
        members.push(row);
    }
    Tpl {
        n,
        d,
        members,
        intern: fg::intern_handle(),
    }
}

fn mixed_cases<P: G>(n: usize, d: usize, depth: usize) -> Vec<Box<dyn Case>> {
    let tpl = match honest_scope(|| mixed_templates::<P>(n, d, depth)) {
        Some(t) => Arc::new(t),
        None => return Vec::new(),
    };
    let mut cases: Vec<Box<dyn Case>> = Vec::new();
    let mut frontier: Vec<Vec<usize>> = vec![vec![]];
    for _ in 0..depth {
        let mut next = Vec::new();
        for s in &frontier {
            for k in 0..MK.len() {
                let mut t = s.clone();
                t.push(k);
                next.push(t);
            }
        }
        for seq in &next {
            let seq = seq.clone();
            let tpl = tpl.clone();
            let name: Vec<String> = seq.iter().map(|k| format!("(m={},c={})", MK[*k].0, MK[*k].1)).collect();
            cases.push(case(format!("{}/n={},d={}/mixed-batch/{}", P::NAME, n, d, name.join("")), move |_v| {
                fg::set_intern(tpl.intern.clone());
                let mut res = CaseResult::new("accepted");
                res.transitions = seq.len() as u64;
                let batch: Vec<&(RangeStatement<P>, RangeProof<P>, Ctx)> = seq.iter().enumerate().map(|(p, k)| &tpl.members[p][*k]).collect();
                let sts: Vec<RangeStatement<P>> = batch.iter().map(|m| m.0.clone()).collect();
                let proofs: Vec<RangeProof<P>> = batch.iter().map(|m| P::proof_clone(&m.1)).collect();
                let mut ts: Vec<Transcript> = batch.iter().map(|m| m.2.transcript()).collect();
                let obs = verify_observed(&sts, &proofs, &mut ts, VerifyAction::VerifyOnly);
                res.executions += 1;
                res.validated += 1;
                if !obs.is_ok() {
                    // differential: the same aggregation sizes in the same order, every member at its minimal capacity (c = m)
                    let twin_ok = {
                        let mut sts2 = Vec::new();
                        let mut proofs2 = Vec::new();
                        let mut ts2 = Vec::new();
                        for (pos, k) in seq.iter().enumerate() {
                            let cfg = Cfg::new(tpl.n, MK[*k].0, MK[*k].0, tpl.d);
                            let mut wit = Wit::default_for(&cfg);
                            for j in 0..cfg.m {
                                wit.values[j] = ((pos + 2 * j) as u64) & cfg.max_value();
                            }
                            let ctx = contexts()[pos % 6];
                            let built = build_cached::<P>(&cfg, &wit).honest();
                            if let Ok(p) = lib_prove(&built, &ctx, &mut HRng::chacha(200 + pos as u64)) {
                                proofs2.push(p);
                                sts2.push(built.statement.clone());
                                ts2.push(ctx.transcript());
                            }
                        }
                        sts2.len() == seq.len() && verify_observed(&sts2, &proofs2, &mut ts2, VerifyAction::VerifyOnly).is_ok()
                    };
                    if twin_ok {
                        res.outcome = "rejected".into();
                        res.violate("VerifyOnly", format!("all-valid batch mixing capacities rejected (the same batch with every member at capacity = aggregation is accepted): {}", obs.describe()));
                    } else {
                        res.outcome = "rejected-at-minimal-capacities-too(skipped)".into();
                    }
                }
                res
            }));
        }
        frontier = next;
    }
    cases
}

fn run_group<P: G>(rep: &mut Report) {
    let thorough = rep.tier.thorough();
    let cmax = if thorough { 32 } else { 8 };
    let mut cases: Vec<Box<dyn Case>> = Vec::new();
    for &n in &BITS {
        for m in [1usize, 2, 4, 8] {
            for d in [1usize, 2] {
                let mut cp = m;
                while cp <= cmax {
                    let mut cv = m;
                    while cv <= cmax {
                        if thorough || n <= 8 || n == 64 {
                            cases.push(pair_case::<P>(n, m, d, cp, cv));
                        }
                        cv *= 2;
                    }
                    cp *= 2;
                }
            }
        }
    }
    // capacities beyond the largest bit length (the two limits are unrelated)
    for (n, m) in [(1usize, 1usize), (2, 2)] {
        for (cp, cv) in [(m, 64usize), (m, 128), (128, m), (64, 128)] {
            cases.push(pair_case::<P>(n, m, 1, cp, cv));
        }
    }
    rep.explore("C12", cases);
    rep.explore("C12", mixed_cases::<P>(2, 1, if thorough { 4 } else { 3 }));
    rep.explore("C12", mixed_cases::<P>(64, 2, 2));
}

pub fn run(rep: &mut Report) {
    rep.rule = "bit lengths x aggregation {1,2,4,8} x every pair (c_p, c_v) of powers of two in [m, 8] (thorough: 32) x degree {1,2}, plus pairs with capacity 64 / 128 at 1 and 2 bits, every parameter object created inside the case: baseline = proved \
                and accepted at the minimal capacity c = m; then prove under capacity c_p and verify (and recover) under capacity c_v for the use \
                histories {fresh objects; the verifier's object first verified another aggregation size (smallest / largest it serves); the \
                prover's object first proved another aggregation size}; recovered masks equal those at the minimal capacity; the vector \
                generators of the two parameter objects agree at every position both expose; mixed-capacity batch BFS over members {(1,1),(1,4),(2,2),(2,8),(4,4)} to depth 3 (thorough 4) in \
                every order (each kind supplies the table / the padding in turn)"
        .into();
    run_group::<F>(rep);
    run_group::<RistrettoPoint>(rep);
    rep.expect_outcome("accepted");
}
