//! C12 Proof validity does not depend on generator capacity (DESIGN.md 3, C12)

use std::sync::Arc;

use curve25519_dalek::ristretto::RistrettoPoint;
use merlin::Transcript;
use serde_json::json;
use tari_bulletproofs_plus::{
    range_proof::{RangeProof, VerifyAction},
    range_statement::RangeStatement,
};

use crate::{
    api::{HRng, G},
    common::*,
    engine::{case, Case, CaseResult, Report},
    fg::{self, F},
};

fn pair_case<P: G>(n: usize, m: usize, d: usize, cp: usize, cv: usize) -> Box<dyn Case> {
    case(format!("{}/n={},m={},d={}/c_p={},c_v={}", P::NAME, n, m, d, cp, cv), move |_v| {
        fg::clear_intern();
        let mut res = CaseResult::new("accepted");
        let cfg_p = Cfg::new(n, m, cp, d);
        let cfg_v = Cfg::new(n, m, cv, d);
        let mut wit = Wit::default_for(&cfg_p);
        if m == 1 {
            wit.seed = Some(seed_scalar(2));
        }
        let prover = build_cached::<P>(&cfg_p, &wit).honest();
        let verifier = build_cached::<P>(&cfg_v, &wit).honest();
        let proof = match lib_prove(&prover, &CTX_A, &mut HRng::chacha(3)) {
            Ok(p) => p,
            Err(_) => {
                res.outcome = "prover-refused(skipped)".into();
                return res;
            },
        };
        res.executions += 1;
        for mode in [VerifyAction::VerifyOnly, VerifyAction::RecoverAndVerify] {
            // the verdict under the prover's own capacity is the baseline: capacity independence is differential
            let own = verify_observed_one(&prover.statement, &proof, &CTX_A, mode);
            if !own.is_ok() {
                res.outcome = "not-accepted-under-own-capacity(skipped)".into();
                continue;
            }
            let obs = verify_observed_one(&verifier.statement, &proof, &CTX_A, mode);
            res.executions += 1;
            res.validated += 1;
            match &obs.result {
                Some(Ok(masks)) => {
                    if mode == VerifyAction::RecoverAndVerify && m == 1 && masks[0].as_ref() != Some(&wit.blindings[0]) {
                        res.violate(mode_name(mode), "mask recovered under another capacity differs from the blinding vector");
                    }
                },
                _ => {
                    res.outcome = "rejected".into();
                    res.violate(
                        mode_name(mode),
                        format!("proof made with capacity {} rejected by a verifier with capacity {}: {}", cp, cv, obs.describe()),
                    );
                },
            }
        }
        // generator j of party i is the same point whatever capacity was requested
        let (gp, hp) = (P::gi_vec(&prover.params), P::hi_vec(&prover.params));
        let (gv, hv) = (P::gi_vec(&verifier.params), P::hi_vec(&verifier.params));
        let common = n * cp.min(cv);
        res.validated += 1;
        if gp.len() != n * cp || gv.len() != n * cv || gp[..common] != gv[..common] || hp[..common] != hv[..common] {
            let first = (0..common).find(|i| gp.get(*i) != gv.get(*i) || hp.get(*i) != hv.get(*i));
            res.violate(
                "generators",
                format!("vector generators depend on the requested capacity (first difference at flat index {:?}, i.e. party {:?})", first, first.map(|i| i / n)),
            );
        }
        res.sample = Some(json!({"n": n, "m": m, "d": d, "c_p": cp, "c_v": cv}));
        res
    })
}

const MK: [(usize, usize); 5] = [(1, 1), (1, 4), (2, 2), (2, 8), (4, 4)];

struct Tpl<P: G> {
    n: usize,
    d: usize,
    members: Vec<Vec<(RangeStatement<P>, RangeProof<P>, Ctx)>>,
    intern: Arc<std::sync::Mutex<std::collections::HashMap<[u8; 32], F>>>,
}

fn mixed_templates<P: G>(n: usize, d: usize, depth: usize) -> Tpl<P> {
    fg::clear_intern();
    let mut members = Vec::new();
    for pos in 0..depth {
        let mut row = Vec::new();
        for (m, c) in MK {
            let cfg = Cfg::new(n, m, c, d);
            let mut wit = Wit::default_for(&cfg);
            for j in 0..m {
                wit.values[j] = ((pos + 2 * j) as u64) & cfg.max_value();
            }
            let ctx = contexts()[pos % 6];
            let built = build_cached::<P>(&cfg, &wit).honest();
            let proof = lib_prove(&built, &ctx, &mut HRng::chacha(200 + pos as u64)).honest();
            row.push((built.statement.clone(), proof, ctx));
        }
        members.push(row);
    }
    Tpl {
        n,
        d,
        members,
        intern: fg::intern_handle(),
    }
}

fn mixed_cases<P: G>(n: usize, d: usize, depth: usize) -> Vec<Box<dyn Case>> {
    let tpl = match honest_scope(|| mixed_templates::<P>(n, d, depth)) {
        Some(t) => Arc::new(t),
        None => return Vec::new(),
    };
    let mut cases: Vec<Box<dyn Case>> = Vec::new();
    let mut frontier: Vec<Vec<usize>> = vec![vec![]];
    for _ in 0..depth {
        let mut next = Vec::new();
        for s in &frontier {
            for k in 0..MK.len() {
                let mut t = s.clone();
                t.push(k);
                next.push(t);
            }
        }
        for seq in &next {
            let seq = seq.clone();
            let tpl = tpl.clone();
            let name: Vec<String> = seq.iter().map(|k| format!("(m={},c={})", MK[*k].0, MK[*k].1)).collect();
            cases.push(case(format!("{}/n={},d={}/mixed-batch/{}", P::NAME, n, d, name.join("")), move |_v| {
                fg::set_intern(tpl.intern.clone());
                let mut res = CaseResult::new("accepted");
                res.transitions = seq.len() as u64;
                let batch: Vec<&(RangeStatement<P>, RangeProof<P>, Ctx)> = seq.iter().enumerate().map(|(p, k)| &tpl.members[p][*k]).collect();
                let sts: Vec<RangeStatement<P>> = batch.iter().map(|m| m.0.clone()).collect();
                let proofs: Vec<RangeProof<P>> = batch.iter().map(|m| P::proof_clone(&m.1)).collect();
                let mut ts: Vec<Transcript> = batch.iter().map(|m| m.2.transcript()).collect();
                let obs = verify_observed(&sts, &proofs, &mut ts, VerifyAction::VerifyOnly);
                res.executions += 1;
                res.validated += 1;
                if !obs.is_ok() {
                    // differential: the same aggregation sizes in the same order with one common capacity
                    let twin_ok = {
                        let mut sts2 = Vec::new();
                        let mut proofs2 = Vec::new();
                        let mut ts2 = Vec::new();
                        for (pos, k) in seq.iter().enumerate() {
                            let cfg = Cfg::new(tpl.n, MK[*k].0, 8, tpl.d);
                            let mut wit = Wit::default_for(&cfg);
                            for j in 0..cfg.m {
                                wit.values[j] = ((pos + 2 * j) as u64) & cfg.max_value();
                            }
                            let ctx = contexts()[pos % 6];
                            let built = build_cached::<P>(&cfg, &wit).honest();
                            if let Ok(p) = lib_prove(&built, &ctx, &mut HRng::chacha(200 + pos as u64)) {
                                proofs2.push(p);
                                sts2.push(built.statement.clone());
                                ts2.push(ctx.transcript());
                            }
                        }
                        sts2.len() == seq.len() && verify_observed(&sts2, &proofs2, &mut ts2, VerifyAction::VerifyOnly).is_ok()
                    };
                    if twin_ok {
                        res.outcome = "rejected".into();
                        res.violate("VerifyOnly", format!("all-valid batch mixing capacities rejected (the same batch with one common capacity is accepted): {}", obs.describe()));
                    } else {
                        res.outcome = "rejected-with-common-capacity-too(skipped)".into();
                    }
                }
                res
            }));
        }
        frontier = next;
    }
    cases
}

fn run_group<P: G>(rep: &mut Report) {
    let thorough = rep.tier.thorough();
    let cmax = if thorough { 32 } else { 8 };
    let mut cases: Vec<Box<dyn Case>> = Vec::new();
    for &n in &BITS {
        for m in [1usize, 2, 4, 8] {
            for d in [1usize, 2] {
                let mut cp = m;
                while cp <= cmax {
                    let mut cv = m;
                    while cv <= cmax {
                        if thorough || n <= 8 || n == 64 {
                            cases.push(pair_case::<P>(n, m, d, cp, cv));
                        }
                        cv *= 2;
                    }
                    cp *= 2;
                }
            }
        }
    }
    rep.explore("C12", cases);
    rep.explore("C12", mixed_cases::<P>(2, 1, if thorough { 4 } else { 3 }));
    rep.explore("C12", mixed_cases::<P>(64, 2, 2));
}

pub fn run(rep: &mut Report) {
    rep.rule = "bit lengths x aggregation {1,2,4,8} x every pair (c_p, c_v) of powers of two in [m, 8] (thorough: 32) x degree {1,2}: prove \
                under capacity c_p, verify (and recover) under capacity c_v, and compare the vector generators of the two parameter objects \
                over their common prefix; mixed-capacity batch BFS over members {(1,1),(1,4),(2,2),(2,8),(4,4)} to depth 3 (thorough 4) in \
                every order (each kind supplies the table / the padding in turn)"
        .into();
    run_group::<F>(rep);
    run_group::<RistrettoPoint>(rep);
    rep.expect_outcome("accepted");
}
