//! C06 The prover emits a proof exactly when the witness is valid (DESIGN.md 3, C06)

use curve25519_dalek::{ristretto::RistrettoPoint, scalar::Scalar};
use serde_json::json;
use tari_bulletproofs_plus::{
    commitment_opening::CommitmentOpening,
    range_proof::VerifyAction,
    range_witness::RangeWitness,
};

use crate::{
    api::{HRng, G},
    common::*,
    engine::{case, Case, CaseResult, Report, Tier},
    fg::{self, F},
    props::c01::positions,
    refbp,
};

/// A (statement, witness) attempt: the statement commits to `commit_values` / `commit_blindings` with `promises`; the
/// witness claims `open_values` / `open_blindings`.
#[derive(Clone, Debug)]
struct Attempt {
    name: String,
    commit_values: Vec<u64>,
    commit_blindings: Vec<Vec<Scalar>>,
    promises: Vec<Option<u64>>,
    open_values: Vec<u64>,
    open_blindings: Vec<Vec<Scalar>>,
}

/// Independently written validity predicate, from the property text
fn valid(cfg: &Cfg, a: &Attempt) -> bool {
    if a.open_values.len() != a.commit_values.len() {
        return false;
    }
    for j in 0..a.open_values.len() {
        if a.open_blindings[j].len() != cfg.d {
            return false;
        }
        // the opening reproduces the commitment (generators are independent, so componentwise equality)
        if a.open_values[j] != a.commit_values[j] || a.open_blindings[j] != a.commit_blindings[j] {
            return false;
        }
        if cfg.n < 64 && a.open_values[j] >> cfg.n != 0 {
            return false;
        }
        if let Some(p) = a.promises[j] {
            if p > a.open_values[j] {
                return false;
            }
        }
    }
    true
}

fn attempts(cfg: &Cfg, tier: Tier) -> Vec<Attempt> {
    let base_w = Wit::default_for(cfg);
    let base = Attempt {
        name: "valid-default".into(),
        commit_values: base_w.values.clone(),
        commit_blindings: base_w.blindings.clone(),
        promises: base_w.promises.clone(),
        open_values: base_w.values.clone(),
        open_blindings: base_w.blindings.clone(),
    };
    let mut out = vec![base.clone()];
    let m = cfg.m;
    // opening count
    let mut counts = vec![m / 2, 2 * m, m + 1];
    counts.sort();
    counts.dedup();
    for count in counts {
        if count == 0 || count == m {
            continue;
        }
        let mut a = base.clone();
        a.name = format!("openings={}", count);
        a.open_values = (0..count).map(|j| base.open_values[j % m]).collect();
        a.open_blindings = (0..count).map(|j| base.open_blindings[j % m].clone()).collect();
        out.push(a);
    }
    // witness degree d +/- 1
    for d2 in [cfg.d.wrapping_sub(1), cfg.d + 1] {
        if d2 == 0 || d2 > 6 {
            continue;
        }
        let mut a = base.clone();
        a.name = format!("witness-degree={}", d2);
        for r in a.open_blindings.iter_mut() {
            r.resize(d2, Scalar::from(7u8));
        }
        out.push(a);
    }
    // witness degree below / above the statement's with commitments that were made with that many blinding factors
    // (so every opening does reproduce its commitment)
    for d2 in [cfg.d.wrapping_sub(1), cfg.d + 1, 1] {
        if d2 == 0 || d2 > 6 || d2 == cfg.d {
            continue;
        }
        let mut a = base.clone();
        a.name = format!("witness-degree={}(commitments made with {} blinding factors)", d2, d2);
        for r in a.open_blindings.iter_mut() {
            r.resize(d2, Scalar::from(9u8));
        }
        if d2 < cfg.d {
            a.commit_blindings = a.open_blindings.clone();
            out.push(a);
        }
    }
    let max = cfg.max_value();
    for &j in &positions(m, tier.thorough()) {
        // value +/- 1 against an unchanged commitment
        for (nm, v) in [("+1", base.open_values[j].wrapping_add(1)), ("-1", base.open_values[j].wrapping_sub(1))] {
            let mut a = base.clone();
            a.name = format!("opening[{}].value{}", j, nm);
            a.open_values[j] = v;
            out.push(a);
        }
        for k in 0..cfg.d {
            let mut a = base.clone();
            a.name = format!("opening[{}].blinding[{}]+1", j, k);
            a.open_blindings[j][k] += Scalar::ONE;
            out.push(a);
        }
        // boundary values with a matching commitment
        let mut boundary = vec![max, u64::MAX, 0];
        if cfg.n < 64 {
            boundary.push(1u64 << cfg.n);
            boundary.push((1u64 << cfg.n) + 1);
        }
        boundary.sort();
        boundary.dedup();
        for v in boundary {
            let mut a = base.clone();
            a.name = format!("value[{}]={}(matching commitment)", j, v);
            a.commit_values[j] = v;
            a.open_values[j] = v;
            out.push(a);
        }
        // out-of-range values whose distance to a promise is in range (matching commitment)
        if cfg.n < 64 {
            let two_n = 1u64 << cfg.n;
            for (v, p) in [(two_n, 1u64), (two_n, two_n), (two_n + 1, 2), (two_n + max.min(7), max.min(7) + 1), (two_n, max)] {
                let mut a = base.clone();
                a.name = format!("value[{}]={},promise={}(matching commitment)", j, v, p);
                a.commit_values[j] = v;
                a.open_values[j] = v;
                a.promises[j] = Some(p);
                out.push(a);
            }
        }
        // the opening (0, all-zero blinding factors): its commitment is the identity element, the witness is valid
        for promise in [None, Some(0u64)] {
            let mut a = base.clone();
            a.name = format!("opening[{}]=zero-value-zero-blindings,promise={:?}", j, promise);
            a.commit_values[j] = 0;
            a.open_values[j] = 0;
            a.commit_blindings[j] = vec![Scalar::ZERO; cfg.d];
            a.open_blindings[j] = vec![Scalar::ZERO; cfg.d];
            a.promises[j] = promise;
            out.push(a);
        }
        // a zero blinding factor in front of non-zero ones (valid)
        if cfg.d >= 2 {
            let mut a = base.clone();
            a.name = format!("opening[{}].blinding[0]=0(matching commitment)", j);
            a.commit_blindings[j][0] = Scalar::ZERO;
            a.open_blindings[j][0] = Scalar::ZERO;
            out.push(a);
        }
        // promises around the value
        let vj = base.open_values[j];
        let mut ps = vec![vj, vj.saturating_add(1), u64::MAX, vj.saturating_sub(1), 0];
        ps.sort();
        ps.dedup();
        for p in ps {
            let mut a = base.clone();
            a.name = format!("promise[{}]={}@v={}", j, p, vj);
            a.promises[j] = Some(p);
            out.push(a);
        }
    }
    // violations at TWO positions that cancel in any aggregate view of the witness (sums of values / of blinding factors)
    if m >= 2 {
        for (a, b) in [(0usize, 1usize), (0, m - 1), (m / 2, m - 1)] {
            if a == b {
                continue;
            }
            if base.open_values[a] != base.open_values[b] || base.open_blindings[a] != base.open_blindings[b] {
                let mut x = base.clone();
                x.name = format!("openings[{}]<->[{}] exchanged", a, b);
                x.open_values.swap(a, b);
                x.open_blindings.swap(a, b);
                out.push(x);
            }
            if base.open_values[a] >= 1 && base.open_values[b] < max {
                let mut x = base.clone();
                x.name = format!("one unit of value moved [{}]->[{}]", a, b);
                x.open_values[a] -= 1;
                x.open_values[b] += 1;
                out.push(x);
            }
            if base.open_blindings[a][0] != base.open_blindings[b][0] {
                let mut x = base.clone();
                x.name = format!("blinding[0] exchanged between [{}] and [{}]", a, b);
                let t = x.open_blindings[a][0];
                x.open_blindings[a][0] = x.open_blindings[b][0];
                x.open_blindings[b][0] = t;
                out.push(x);
            }
        }
    }
    // blinding-count deviations that come in pairs (commitments made with as many factors as the openings carry)
    if m >= 4 && cfg.d >= 2 {
        for pattern in ["second-half", "last-pair", "alternating-pairs"] {
            let mut x = base.clone();
            x.name = format!("witness degree {} on {} (matching commitments)", cfg.d - 1, pattern);
            for j in 0..m {
                let short = match pattern {
                    "second-half" => j >= m / 2,
                    "last-pair" => j >= m - 2,
                    _ => (j / 2) % 2 == 1,
                };
                if short {
                    x.open_blindings[j].truncate(cfg.d - 1);
                    x.commit_blindings[j] = x.open_blindings[j].clone();
                }
            }
            out.push(x);
        }
    }
    // full value x promise product for tiny spaces (n*m <= 4), invalid promises included
    if cfg.big_n() <= 4 && cfg.c == cfg.m && cfg.d == 1 {
        let vals: Vec<u64> = (0..=(max + 1)).collect();
        let mut proms: Vec<Option<u64>> = vec![None];
        proms.extend((0..=(max + 1)).map(Some));
        let per: Vec<(u64, Option<u64>)> = vals.iter().flat_map(|v| proms.iter().map(move |p| (*v, *p))).collect();
        let mut idx = vec![0usize; m];
        loop {
            let mut a = base.clone();
            a.name = "product".into();
            for j in 0..m {
                let (v, p) = per[idx[j]];
                a.commit_values[j] = v;
                a.open_values[j] = v;
                a.promises[j] = p;
                a.name.push_str(&format!(":{}/{:?}", v, p));
            }
            out.push(a);
            let mut j = 0;
            loop {
                idx[j] += 1;
                if idx[j] < per.len() {
                    break;
                }
                idx[j] = 0;
                j += 1;
                if j == m {
                    break;
                }
            }
            if j == m {
                break;
            }
        }
    }
    let mut seen = std::collections::BTreeSet::new();
    out.retain(|a| seen.insert(a.name.clone()));
    out
}

fn attempt_case<P: G>(cfg: Cfg, a: Attempt) -> Box<dyn Case> {
    case(format!("{}/{}/{}", P::NAME, cfg.key(), a.name), move |_v| {
        fg::clear_intern();
        let mut res = CaseResult::new("");
        let params = params_cached::<P>(&cfg);
        let commitments: Vec<P> = a
            .commit_values
            .iter()
            .zip(a.commit_blindings.iter())
            .map(|(v, r)| P::commit(params.pc_gens(), &Scalar::from(*v), r).expect("commitment"))
            .collect();
        let st = P::statement(params.clone(), commitments, a.promises.clone(), None).expect("statement");
        let openings: Vec<CommitmentOpening> = a
            .open_values
            .iter()
            .zip(a.open_blindings.iter())
            .map(|(v, r)| CommitmentOpening::new(*v, r.clone()))
            .collect();
        let wit = match RangeWitness::init(openings) {
            Ok(w) => w,
            Err(_) => {
                res.outcome = "witness-constructor-refused".into();
                return res;
            },
        };
        let expect = valid(&cfg, &a);
        // both entry points: the caller's generator, and the one that takes its randomness from the operating system
        for entry in ["prove", "prove-os"] {
        let mut t = CTX_A.transcript();
        let r = catch(|| if entry == "prove" { P::prove(&mut t, &st, &wit, &mut HRng::chacha(31)) } else { P::prove_os(&mut t, &st, &wit) });
        res.executions += 1;
        res.validated += 1;
        match r {
            Err(p) => {
                res.outcome = "prover-panic".into();
                res.violate(entry, format!("prover panicked instead of returning an error: {}", p));
            },
            Ok(Err(e)) => {
                res.outcome = format!("refused:{}", crate::api::err_kind(&e));
                if expect {
                    res.violate(entry, format!("valid witness refused: {}", crate::api::err_name(&e)));
                }
            },
            Ok(Ok(proof)) => {
                res.outcome = "proof".into();
                if !expect {
                    res.violate(entry, "prover emitted a proof for an invalid witness");
                }
                // whenever it returns a proof that proof verifies (library and reference)
                let obs = verify_observed_one(&st, &proof, &CTX_A, VerifyAction::VerifyOnly);
                res.executions += 1;
                if !obs.is_ok() {
                    res.violate(format!("{}/verify", entry), format!("the emitted proof does not verify: {}", obs.describe()));
                }
                if let Some(rp) = ref_proof_of(&proof) {
                    let rst = ref_statement(&st);
                    let mut t = CTX_A.transcript();
                    let chk = refbp::ref_verify(&mut t, &rst, &rp);
                    res.validated += 1;
                    if !chk.verdict.accepts() {
                        res.binding_note("ref-verify", format!("the emitted proof is not accepted by the reference verifier: {:?} (C02 / C19)", chk.verdict));
                    }
                }
            },
        }
        }
        res.sample = Some(json!({"cfg": cfg.key(), "attempt": a.name, "valid": expect}));
        res
    })
}

pub fn run(rep: &mut Report) {
    rep.rule = "configuration lattice x {valid default; each single violation of the witness relation at each position: opening count \
                m/2, m+1, 2m; witness degree d+/-1; value +/-1 against unchanged commitment; each blinding component +1; boundary values \
                2^n-1, 2^n, 2^n+1, u64::MAX, 0 with matching commitment; the opening (0, zero blinding factors) whose commitment is the identity; a zero leading blinding factor; promise in {v-1, v, v+1, 0, u64::MAX}; two-position violations that cancel in sums (openings exchanged, a unit of value moved, a blinding factor exchanged); blinding-count deviations in pairs}; full (value x promise) \
                product incl. invalid ones when bits*aggregation <= 4; oracle: independent validity predicate; Ok <=> valid; every Ok proof \
                verifies (library + reference); refusals are errors not panics; every attempt through both entry points (caller's generator, OS randomness)"
        .into();
    let tier = rep.tier;
    let mut cases: Vec<Box<dyn Case>> = Vec::new();
    for cfg in lattice(tier.thorough()) {
        for a in attempts(&cfg, tier) {
            cases.push(attempt_case::<F>(cfg, a.clone()));
            cases.push(attempt_case::<RistrettoPoint>(cfg, a));
        }
    }
    rep.explore("C06", cases);
    rep.expect_outcome("proof");
    rep.expect_outcome("refused:InvalidArgument");
    rep.expect_outcome("refused:InvalidLength");
}
