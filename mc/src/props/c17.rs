//! C17 Constructors accept exactly the documented parameter space (DESIGN.md 3, C17)

use curve25519_dalek::{ristretto::RistrettoPoint, scalar::Scalar};
use serde_json::json;
use tari_bulletproofs_plus::{
    commitment_opening::CommitmentOpening,
    extended_mask::ExtendedMask,
    generators::pedersen_gens::ExtensionDegree,
    range_witness::RangeWitness,
};

use crate::{
    api::{ext, G},
    common::*,
    engine::{case, Case, CaseResult, Report},
    fg::{self, F},
};

fn is_pow2(x: usize) -> bool {
    x != 0 && x & (x - 1) == 0
}

fn tally(res: &mut CaseResult, ok: bool) {
    *res.outcome_counter(if ok { "constructor-ok" } else { "constructor-err" }) += 1;
    res.executions += 1;
    res.validated += 1;
    res.transitions += 1;
}

fn params_case<P: G>(ns: Vec<usize>, cs: Vec<usize>, label: String) -> Box<dyn Case> {
    case(format!("{}/RangeParameters::init/{}", P::NAME, label), move |_v| {
        fg::clear_intern();
        let mut res = CaseResult::new("explored");
        for &n in &ns {
            for &c in &cs {
                let expect = is_pow2(n) && n <= 64 && is_pow2(c);
                let r = catch(|| P::params(n, c, P::pc_gens(2)));
                match r {
                    Err(p) => res.violate(format!("n={},c={}", n, c), format!("constructor panicked: {}", p)),
                    Ok(r) => {
                        tally(&mut res, r.is_ok());
                        if r.is_ok() != expect {
                            res.violate(format!("n={},c={}", n, c), format!("RangeParameters::init({}, {}) returned Ok={} but the documented domain says {}", n, c, r.is_ok(), expect));
                        }
                        if let Ok(p) = r {
                            if p.bit_length() != n || p.max_aggregation_factor() != c || p.extension_degree() as usize != 2 {
                                res.violate(
                                    format!("n={},c={}/getters", n, c),
                                    format!("silently adjusted: bit_length {} capacity {} degree {}", p.bit_length(), p.max_aggregation_factor(), p.extension_degree() as usize),
                                );
                            }
                            if P::gi_vec(&p).len() != n * c || P::hi_vec(&p).len() != n * c {
                                res.violate(format!("n={},c={}/generators", n, c), "generator count is not bits x capacity");
                            }
                        }
                    },
                }
            }
        }
        res
    })
}

fn statement_case<P: G>(capacity: usize) -> Box<dyn Case> {
    case(format!("{}/RangeStatement::init/capacity={}", P::NAME, capacity), move |_v| {
        fg::clear_intern();
        let mut res = CaseResult::new("explored");
        let params = P::params(4, capacity, P::pc_gens(1)).unwrap();
        let h = params.h_base().clone();
        for count in 0..=17usize {
            let commitments: Vec<P> = (0..count).map(|j| h.g_mul(&Scalar::from(j as u64 + 2))).collect();
            let mut pcounts = vec![count, count + 1];
            if count > 0 {
                pcounts.push(count - 1);
            }
            for pcount in pcounts {
                // seed: absent, an ordinary one, and the corners of the scalar field (presence is what counts, not the value)
                for (seed_name, seed) in [("none", None), ("ordinary", Some(seed_scalar(1))), ("zero", Some(Scalar::ZERO)), ("one", Some(Scalar::ONE)), ("minus-one", Some(-Scalar::ONE))] {
                    let seeded = seed.is_some();
                    for some_promises in [false, true] {
                        let promises: Vec<Option<u64>> = (0..pcount).map(|j| if some_promises { Some(j as u64 % 3) } else { None }).collect();
                        let expect = is_pow2(count) && count <= capacity && pcount == count && (!seeded || count == 1);
                        let sub = format!("count={},promises={},seed={},some={}", count, pcount, seed_name, some_promises);
                        match catch(|| P::statement(params.clone(), commitments.clone(), promises.clone(), seed)) {
                            Err(p) => res.violate(sub, format!("constructor panicked: {}", p)),
                            Ok(r) => {
                                tally(&mut res, r.is_ok());
                                if r.is_ok() != expect {
                                    res.violate(sub.clone(), format!("RangeStatement::init returned Ok={} but the documented domain says {}", r.is_ok(), expect));
                                }
                                if let Ok(st) = r {
                                    if st.commitments != commitments || st.minimum_value_promises != promises || st.seed_nonce != seed || st.commitments_compressed.len() != count {
                                        res.violate(format!("{}/fields", sub), "statement fields differ from what was requested");
                                    }
                                    if P::statement_commitments_compressed(&st) != commitments.iter().map(|c| c.g_compress()).collect::<Vec<_>>() {
                                        res.violate(format!("{}/compressed", sub), "compressed commitments are not the encodings of the commitments");
                                    }
                                }
                            },
                        }
                    }
                }
            }
        }
        res
    })
}

/// The parameter constructor with commitment generators of every extension degree (the domain does not depend on the degree)
fn params_degree_case<P: G>() -> Box<dyn Case> {
    case(format!("{}/RangeParameters::init/degrees", P::NAME), move |_v| {
        fg::clear_intern();
        let mut res = CaseResult::new("explored");
        for d in 1..=6usize {
            for n in [0usize, 1, 2, 3, 8, 64, 65, 128] {
                for c in [0usize, 1, 2, 3, 4, 64, 128] {
                    let expect = is_pow2(n) && n <= 64 && is_pow2(c);
                    if !P::IS_F && expect && n * c > 1024 {
                        continue; // thousands of hash-to-group operations per object: the free-module instance covers these
                    }
                    match catch(|| P::params(n, c, P::pc_gens(d))) {
                        Err(p) => res.violate(format!("d={},n={},c={}", d, n, c), format!("constructor panicked: {}", p)),
                        Ok(r) => {
                            tally(&mut res, r.is_ok());
                            if r.is_ok() != expect {
                                res.violate(format!("d={},n={},c={}", d, n, c), format!("RangeParameters::init({}, {}) with degree-{} generators returned Ok={} but the documented domain says {}", n, c, d, r.is_ok(), expect));
                            }
                            if let Ok(p) = r {
                                if p.extension_degree() as usize != d || p.bit_length() != n || p.max_aggregation_factor() != c {
                                    res.violate(format!("d={},n={},c={}/getters", d, n, c), "silently adjusted parameters");
                                }
                            }
                        },
                    }
                }
            }
        }
        res
    })
}

fn witness_case() -> Box<dyn Case> {
    case("RangeWitness::init+CommitmentOpening::r_len", move |_v| {
        let mut res = CaseResult::new("explored");
        let counts: Vec<usize> = (0..=8).collect();
        let big: Vec<usize> = vec![255, 256, 257, 258, 262, 512, 513];
        let mut shapes: Vec<Vec<usize>> = vec![vec![]];
        // all products for length <= 3
        for a in &counts {
            shapes.push(vec![*a]);
            for b in &counts {
                shapes.push(vec![*a, *b]);
                for c in &counts {
                    shapes.push(vec![*a, *b, *c]);
                }
            }
        }
        // one-position deviations for length 4, and large blinding counts
        for base in 1..=6usize {
            for pos in 0..4 {
                for dev in &counts {
                    let mut s = vec![base; 4];
                    s[pos] = *dev;
                    shapes.push(s);
                }
            }
        }
        // every pattern over two neighbouring blinding counts at lengths 4 and 8 (deviations that come in pairs or runs)
        for base in [1usize, 2, 5] {
            for len in [4usize, 8] {
                for bits in 0..(1u32 << len) {
                    shapes.push((0..len).map(|i| if bits >> i & 1 == 1 { base + 1 } else { base }).collect());
                }
            }
        }
        for b in &big {
            shapes.push(vec![*b]);
            shapes.push(vec![*b, *b]);
            shapes.push(vec![1, *b]);
        }
        shapes.sort();
        shapes.dedup();
        for shape in shapes {
            let openings: Vec<CommitmentOpening> = shape.iter().enumerate().map(|(j, k)| CommitmentOpening::new(j as u64, vec![Scalar::from(3u8); *k])).collect();
            // r_len on each opening
            for (o, k) in openings.iter().zip(shape.iter()) {
                match catch(|| o.r_len()) {
                    Ok(r) => {
                        let exp = *k >= 1;
                        if r.is_ok() != exp || r.as_ref().ok() != if exp { Some(k) } else { None } {
                            res.violate(format!("r_len/{}", k), format!("r_len on {} blinding factors returned {:?}", k, r.ok()));
                        }
                    },
                    Err(p) => res.violate(format!("r_len/{}", k), format!("panicked: {}", p)),
                }
            }
            let expect = !shape.is_empty() && shape.iter().all(|k| *k == shape[0]) && (1..=6).contains(&shape[0]);
            let sub = format!("shape={:?}", shape);
            match catch(|| RangeWitness::init(openings.clone())) {
                Err(p) => res.violate(sub, format!("constructor panicked: {}", p)),
                Ok(r) => {
                    tally(&mut res, r.is_ok());
                    if r.is_ok() != expect {
                        res.violate(sub.clone(), format!("RangeWitness::init returned Ok={} but the documented domain says {}", r.is_ok(), expect));
                    }
                    if let Ok(w) = r {
                        if w.openings.len() != shape.len() || w.extension_degree as usize != shape[0] {
                            res.violate(format!("{}/fields", sub), format!("witness reports {} openings of degree {}", w.openings.len(), w.extension_degree as usize));
                        }
                    }
                },
            }
        }
        res
    })
}

fn mask_degree_commit_case<P: G>() -> Box<dyn Case> {
    case(format!("{}/ExtendedMask+ExtensionDegree+commit", P::NAME), move |_v| {
        fg::clear_intern();
        let mut res = CaseResult::new("explored");
        // ExtendedMask::assign: degree 1..6 x length 0..8
        for d in 1..=6usize {
            for len in 0..=8usize {
                let v: Vec<Scalar> = (0..len).map(|i| Scalar::from(i as u64 + 5)).collect();
                let expect = len == d;
                match catch(|| ExtendedMask::assign(ext(d), v.clone())) {
                    Err(p) => res.violate(format!("mask/d={},len={}", d, len), format!("panicked: {}", p)),
                    Ok(r) => {
                        tally(&mut res, r.is_ok());
                        if r.is_ok() != expect {
                            res.violate(format!("mask/d={},len={}", d, len), format!("ExtendedMask::assign returned Ok={} but mask length must equal the degree", r.is_ok()));
                        }
                        if let Ok(m) = r {
                            if m.blindings().ok() != Some(v.clone()) {
                                res.violate(format!("mask/d={},len={}/content", d, len), "mask contents differ from what was assigned");
                            }
                        }
                    },
                }
            }
        }
        // ExtensionDegree conversions: all u8, and a usize alphabet
        for x in 0..=255u8 {
            let r = ExtensionDegree::try_from(x);
            tally(&mut res, r.is_ok());
            let expect = (1..=6).contains(&x);
            if r.is_ok() != expect || r.as_ref().map(|d| *d as u8).ok() != if expect { Some(x) } else { None } {
                res.violate(format!("degree/u8={}", x), format!("ExtensionDegree::try_from({}u8) = {:?}", x, r.ok().map(|d| d as u8)));
            }
        }
        let mut us: Vec<usize> = (0..=300).collect();
        us.extend([511, 512, 513, 1 << 16, (1 << 16) + 1, (1 << 16) + 6, 1usize << 32, (1usize << 32) + 1, (1usize << 32) + 6, usize::MAX, usize::MAX - 250]);
        for k in 1..=6usize {
            us.push(256 * 7 + k);
            us.push((1usize << 40) + k);
        }
        for x in us {
            match catch(|| ExtensionDegree::try_from(x)) {
                Err(p) => res.violate(format!("degree/usize={}", x), format!("panicked: {}", p)),
                Ok(r) => {
                    tally(&mut res, r.is_ok());
                    let expect = (1..=6).contains(&x);
                    if r.is_ok() != expect || r.as_ref().map(|d| *d as usize).ok() != if expect { Some(x) } else { None } {
                        res.violate(format!("degree/usize={}", x), format!("ExtensionDegree::try_from({}usize) = {:?}", x, r.ok().map(|d| d as usize)));
                    }
                },
            }
        }
        // PedersenGens::commit: degree 1..6 x blinding count 0..8
        for d in 1..=6usize {
            let pc = P::pc_gens(d);
            for count in 0..=8usize {
              // value alphabet {0, 1, 9, -1} x blinding patterns {distinct nonzero, all zero, zero at even / odd positions}: the
              // domain and the value of a commitment do not depend on which scalars happen to be zero
              for (vn, v) in [("0", Scalar::ZERO), ("1", Scalar::ONE), ("9", Scalar::from(9u8)), ("-1", -Scalar::ONE)] {
                for pattern in ["distinct", "all-zero", "zero-at-even", "zero-at-odd"] {
                let r: Vec<Scalar> = (0..count)
                    .map(|i| match pattern {
                        "all-zero" => Scalar::ZERO,
                        "zero-at-even" if i % 2 == 0 => Scalar::ZERO,
                        "zero-at-odd" if i % 2 == 1 => Scalar::ZERO,
                        _ => Scalar::from(i as u64 + 11),
                    })
                    .collect();
                let expect = count >= 1 && count <= d;
                let sub = format!("commit/d={},count={},v={},r={}", d, count, vn, pattern);
                match catch(|| P::commit(&pc, &v, &r)) {
                    Err(p) => res.violate(sub, format!("panicked: {}", p)),
                    Ok(out) => {
                        tally(&mut res, out.is_ok());
                        if out.is_ok() != expect {
                            res.violate(sub.clone(), format!("commit returned Ok={} for {} blinding factors at degree {}", out.is_ok(), count, d));
                        }
                        if let Ok(c) = out {
                            let mut acc = pc.h_base.g_mul(&v);
                            for (k, x) in r.iter().enumerate().take(d) {
                                acc = acc.g_add(&pc.g_base_vec[k].g_mul(x));
                            }
                            if c != acc {
                                res.violate(format!("{}/value", sub), "commitment is not v*H + sum r_k*G_k");
                            }
                        }
                    },
                }
                }
              }
            }
        }
        res.sample = Some(json!({"group": P::NAME}));
        res
    })
}

pub fn run(rep: &mut Report) {
    rep.rule = "complete enumeration: RangeParameters::init bits 0..=130 x capacity 0..=130 (F) and {0,1,2,3,4,63,64,65,128}^2 (Ristretto), and a grid of (bits, capacity) with generators of every degree 1..6; \
                RangeStatement::init commitment count 0..=17 x promise count {count-1,count,count+1} x seed {none, ordinary, 0, 1, -1} x capacity {1,2,4,8,16}; \
                RangeWitness::init all shapes of length <= 3 over blinding counts 0..=8, one-position deviations at length 4, every pattern over two neighbouring counts at lengths 4 and 8, counts \
                {255..258,262,512,513}; CommitmentOpening::r_len; ExtendedMask::assign degree x length 0..=8; ExtensionDegree::try_from all \
                u8 and usize {0..=300, 2^16, 2^32, usize::MAX, values whose low byte is 1..6}; PedersenGens::commit degree x count 0..=8 x value {0,1,9,-1} x zero patterns of the blinding vector; \
                oracle: independent predicates from the documented domains, getters return what was requested, never a panic"
        .into();
    let mut cases: Vec<Box<dyn Case>> = Vec::new();
    for chunk in 0..16usize {
        let ns: Vec<usize> = (0..=130).filter(|x| x % 16 == chunk).collect();
        cases.push(params_case::<F>(ns, (0..=130).collect(), format!("bits-mod16={}", chunk)));
    }
    let small = vec![0usize, 1, 2, 3, 4, 63, 64, 65, 128];
    cases.push(params_case::<RistrettoPoint>(small.clone(), small, "boundary".into()));
    for cap in [1usize, 2, 4, 8, 16] {
        cases.push(statement_case::<F>(cap));
        cases.push(statement_case::<RistrettoPoint>(cap));
    }
    cases.push(witness_case());
    cases.push(params_degree_case::<F>());
    cases.push(params_degree_case::<RistrettoPoint>());
    cases.push(mask_degree_commit_case::<F>());
    cases.push(mask_degree_commit_case::<RistrettoPoint>());
    rep.explore("C17", cases);
    rep.expect_sub_outcome("constructor-ok");
    rep.expect_sub_outcome("constructor-err");
}
