//! C04 Fiat-Shamir binding: each challenge depends on everything before it (DESIGN.md 3, C04)

use std::collections::BTreeMap;

use curve25519_dalek::{ristretto::RistrettoPoint, scalar::Scalar};
use merlin::observe::{Event, Op};
use serde_json::json;
use tari_bulletproofs_plus::{
    range_proof::{RangeProof, VerifyAction},
    range_statement::RangeStatement,
    range_witness::RangeWitness,
};

use crate::{
    api::{pc_gens_from, HRng, G},
    common::*,
    engine::{case, Case, CaseResult, Report},
    fg::{self, F},
    mutate::{self, Mut, PPos},
    refbp::{self, RefProof},
};

/// The caller-transcript part of a trace: (appended data blobs before each challenge draw, the drawn bytes)
struct Draws {
    /// for each challenge draw in order: multiset of data blobs appended before it (cumulative)
    before: Vec<BTreeMap<Vec<u8>, usize>>,
    bytes: Vec<Vec<u8>>,
}

fn draws_of(trace: &[Event]) -> Option<Draws> {
    let tid = trace.iter().find_map(|e| match &e.op {
        Op::New { .. } => Some(e.tid),
        _ => None,
    })?;
    let mut cur: BTreeMap<Vec<u8>, usize> = BTreeMap::new();
    let mut before = Vec::new();
    let mut bytes = Vec::new();
    for e in trace.iter().filter(|e| e.tid == tid) {
        match &e.op {
            Op::New { label } => {
                *cur.entry(label.clone()).or_insert(0) += 0; // the label arrives as the dom-sep append that follows
            },
            Op::Append { data, .. } => {
                *cur.entry(data.clone()).or_insert(0) += 1;
            },
            Op::Challenge { out, .. } => {
                before.push(cur.clone());
                bytes.push(out.clone());
            },
            _ => {},
        }
    }
    Some(Draws { before, bytes })
}

/// The data that must have been absorbed before challenge index i (0 = y, 1 = z, 2.. = e_j, last = e)
fn required_before(
    ctx: &Ctx,
    n: usize,
    d: usize,
    h: [u8; 32],
    g: &[[u8; 32]],
    commitments: &[[u8; 32]],
    promises: &[Option<u64>],
    proof: &RefProof,
    index: usize,
) -> Vec<(String, Vec<u8>)> {
    let k = proof.l.len();
    let mut req: Vec<(String, Vec<u8>)> = Vec::new();
    req.push(("context label".into(), ctx.label.to_vec()));
    if let Some(m) = ctx.msg {
        req.push(("context message".into(), m.to_vec()));
    }
    req.push(("H".into(), h.to_vec()));
    for (i, x) in g.iter().enumerate() {
        req.push((format!("G{}", i), x.to_vec()));
    }
    req.push(("bit length".into(), (n as u64).to_le_bytes().to_vec()));
    req.push(("extension degree".into(), (d as u64).to_le_bytes().to_vec()));
    req.push(("aggregation factor".into(), (commitments.len() as u64).to_le_bytes().to_vec()));
    for (j, c) in commitments.iter().enumerate() {
        req.push((format!("commitment {}", j), c.to_vec()));
    }
    for (j, p) in promises.iter().enumerate() {
        req.push((format!("promise {}", j), p.unwrap_or(0).to_le_bytes().to_vec()));
    }
    req.push(("A".into(), proof.a.to_vec()));
    // round challenges e_j are draws 2..2+k
    let rounds_before = if index < 2 { 0 } else { (index - 2 + 1).min(k) };
    for j in 0..rounds_before {
        req.push((format!("L{}", j), proof.l[j].to_vec()));
        req.push((format!("R{}", j), proof.r[j].to_vec()));
    }
    if index >= 2 + k {
        req.push(("A1".into(), proof.a1.to_vec()));
        req.push(("B".into(), proof.b.to_vec()));
    }
    req
}

fn check_trace_binding(
    role: &str,
    draws: &Draws,
    ctx: &Ctx,
    n: usize,
    d: usize,
    h: [u8; 32],
    g: &[[u8; 32]],
    commitments: &[[u8; 32]],
    promises: &[Option<u64>],
    proof: &RefProof,
    res: &mut CaseResult,
) {
    let k = proof.l.len();
    if draws.bytes.len() != 3 + k {
        res.violate(format!("{}/draw-count", role), format!("{} challenge draws observed, protocol has {}", draws.bytes.len(), 3 + k));
        return;
    }
    for i in 0..draws.bytes.len() {
        let req = required_before(ctx, n, d, h, g, commitments, promises, proof, i);
        // multiset inclusion, label-agnostic
        let mut need: BTreeMap<Vec<u8>, (usize, String)> = BTreeMap::new();
        for (name, data) in req {
            let e = need.entry(data).or_insert((0, name.clone()));
            e.0 += 1;
            if e.0 > 1 {
                e.1 = format!("{}+{}", e.1, name);
            }
        }
        for (data, (count, name)) in need {
            res.validated += 1;
            let have = draws.before[i].get(&data).copied().unwrap_or(0);
            if have < count {
                res.violate(
                    format!("{}/trace/challenge{}/{}", role, i, name),
                    format!(
                        "challenge #{} is drawn although datum '{}' was absorbed {} time(s) before it (needs {})",
                        i, name, have, count
                    ),
                );
            }
        }
    }
}

struct Run {
    draws: Draws,
}

fn verifier_run<P: G>(st: &RangeStatement<P>, proof: &RangeProof<P>, ctx: &Ctx) -> Option<Run> {
    verifier_run_mode(st, proof, ctx, VerifyAction::VerifyOnly)
}

fn verifier_run_mode<P: G>(st: &RangeStatement<P>, proof: &RangeProof<P>, ctx: &Ctx, mode: VerifyAction) -> Option<Run> {
    merlin::observe::start();
    let mut ts = vec![ctx.transcript()];
    let _ = catch(|| P::verify(&mut ts, std::slice::from_ref(st), std::slice::from_ref(proof), mode));
    let trace = merlin::observe::take();
    Some(Run { draws: draws_of(&trace)? })
}

fn prover_run<P: G>(st: &RangeStatement<P>, wit: &RangeWitness, ctx: &Ctx, rng_seed: u64) -> Option<(Run, Option<RangeProof<P>>)> {
    merlin::observe::start();
    let mut t = ctx.transcript();
    let r = catch(|| P::prove(&mut t, st, wit, &mut HRng::chacha(rng_seed)));
    let trace = merlin::observe::take();
    let proof = match r {
        Ok(Ok(p)) => Some(p),
        _ => None,
    };
    Some((Run { draws: draws_of(&trace)? }, proof))
}

/// base vs perturbed: challenges from `first_changed` on must all differ, earlier ones must be equal
fn check_dependence(role: &str, what: &str, base: &Draws, pert: &Draws, first_changed: usize, res: &mut CaseResult) {
    res.transitions += 1;
    if base.bytes.len() != pert.bytes.len() {
        // the perturbation changed the number of draws (e.g. other round count): nothing to align
        *res.outcome_counter("perturbation-changed-draw-count") += 1;
        return;
    }
    for i in 0..base.bytes.len() {
        res.validated += 1;
        let same = base.bytes[i] == pert.bytes[i];
        if i >= first_changed && same {
            res.violate(
                format!("{}/depends/{}/challenge{}", role, what, i),
                format!("challenge #{} does not change when {} changes", i, what),
            );
        }
        if i < first_changed && !same {
            res.violate(
                format!("{}/depends/{}/challenge{}", role, what, i),
                format!("challenge #{} (drawn before {} is absorbed) changed", i, what),
            );
        }
    }
    *res.outcome_counter("dependence-pairs-checked") += (base.bytes.len() - first_changed.min(base.bytes.len())) as u64;
}

fn fs_case<P: G>(cfg: Cfg) -> Box<dyn Case> {
    fs_case_variant::<P>(cfg, false)
}

/// `identity_first`: the first commitment of the aggregate is the identity element (value 0, all-zero blinding factors);
/// everything after it is still statement data every challenge depends on
fn fs_case_variant<P: G>(cfg: Cfg, identity_first: bool) -> Box<dyn Case> {
    case(format!("{}/{}{}", P::NAME, cfg.key(), if identity_first { "/identity-commitment-first" } else { "" }), move |_v| {
        fg::clear_intern();
        let mut res = CaseResult::new("explored");
        let ctx = contexts()[4]; // label ctx-b with a pre-absorbed message
        let mut wit = Wit::default_for(&cfg);
        for j in 0..cfg.m {
            // every position gets room below and above and a distinct promise pattern
            if wit.values[j] == 0 && cfg.n > 0 {
                wit.values[j] = 1;
            }
        }
        if wit.values[0] >= 1 {
            wit.promises[0] = Some(wit.values[0] / 2);
        }
        if identity_first {
            wit.values[0] = 0;
            wit.promises[0] = None;
            wit.blindings[0] = vec![Scalar::ZERO; cfg.d];
        }
        let built = build_cached::<P>(&cfg, &wit).honest();
        let k = cfg.rounds();
        let h = P::h_compressed(&built.params);
        let g = P::g_compressed(&built.params);
        let cs = P::statement_commitments_compressed(&built.statement);

        // ---------------- prover
        let (prun, proof) = match prover_run::<P>(&built.statement, &built.witness, &ctx, 81) {
            Some((r, Some(p))) => (r, p),
            _ => {
                res.outcome = "honest-prover-failed(skipped)".into();
                return res;
            },
        };
        res.executions += 1;
        let rp = ref_proof_of(&proof).expect("proof form");
        check_trace_binding("prover", &prun.draws, &ctx, cfg.n, cfg.d, h, &g, &cs, &wit.promises, &rp, &mut res);

        // ---------------- verifier
        let vrun = verifier_run::<P>(&built.statement, &proof, &ctx).expect("verifier trace");
        res.executions += 1;
        check_trace_binding("verifier", &vrun.draws, &ctx, cfg.n, cfg.d, h, &g, &cs, &wit.promises, &rp, &mut res);
        if vrun.draws.bytes != prun.draws.bytes {
            res.violate("prover-vs-verifier", "prover and verifier drew different challenges for the same triple");
        }

        // ---------------- functional dependence, statement / parameter data (both roles)
        let pc = built.params.pc_gens().clone();
        let mut stmts: Vec<(String, Ctx, Cfg, Wit, Option<tari_bulletproofs_plus::generators::pedersen_gens::PedersenGens<P>>)> = Vec::new();
        for c2 in contexts() {
            if c2 != ctx && (c2.label != ctx.label || c2.msg != ctx.msg) {
                stmts.push((format!("context {}", c2.key()), c2, cfg, wit.clone(), None));
            }
        }
        stmts.push(("H".into(), ctx, cfg, wit.clone(), Some(pc_gens_from(pc.h_base.g_add(&pc.g_base_vec[0]), pc.g_base_vec.clone()))));
        for kk in 0..cfg.d {
            let mut gg = pc.g_base_vec.clone();
            gg[kk] = gg[kk].g_add(&pc.h_base);
            stmts.push((format!("G{}", kk), ctx, cfg, wit.clone(), Some(pc_gens_from(pc.h_base.clone(), gg))));
        }
        for n2 in [cfg.n / 2, cfg.n * 2] {
            if n2 >= 1 && n2 <= 64 && wit.values.iter().all(|v| n2 >= 64 || v >> n2 == 0) {
                stmts.push((format!("bit length {}->{}", cfg.n, n2), ctx, Cfg::new(n2, cfg.m, cfg.c, cfg.d), wit.clone(), None));
            }
        }
        for j in 0..cfg.m {
            // commitment j (the witness changes with it so that the prover still runs)
            let mut w = wit.clone();
            w.blindings[j][0] += Scalar::ONE;
            stmts.push((format!("commitment {}", j), ctx, cfg, w, None));
            // promise j
            let mut w = wit.clone();
            w.promises[j] = match w.promises[j] {
                None => Some(1),
                Some(p) => Some(p + 1),
            };
            if w.promises[j].unwrap() <= w.values[j] {
                stmts.push((format!("promise {}", j), ctx, cfg, w, None));
            }
        }
        for (what, c2, cfg2, w2, pc2) in stmts {
            let b2 = match pc2 {
                Some(p) => build_with_pc::<P>(&cfg2, &w2, p),
                None => build_cached::<P>(&cfg2, &w2),
            };
            let b2 = match b2 {
                Ok(b) => b,
                Err(_) => continue,
            };
            // verifier: same proof object, perturbed statement / context
            if let Some(v2) = verifier_run::<P>(&b2.statement, &proof, &c2) {
                res.executions += 1;
                check_dependence("verifier", &what, &vrun.draws, &v2.draws, 0, &mut res);
            }
            // prover: same RNG stream, perturbed statement / context
            if let Some((p2, _)) = prover_run::<P>(&b2.statement, &b2.witness, &c2, 81) {
                res.executions += 1;
                if p2.draws.bytes.len() == prun.draws.bytes.len() {
                    check_dependence("prover", &what, &prun.draws, &p2.draws, 0, &mut res);
                }
            }
        }
        // another RNG stream gives another A, hence every challenge changes. (Whether A depends on the RNG at all is C13's
        // question: if the second run's A is the same point, there is no perturbation to follow through the transcript.)
        if let Some((p2, Some(proof2))) = prover_run::<P>(&built.statement, &built.witness, &ctx, 82) {
            let a_changed = ref_proof_of(&proof2).map(|q| q.a != rp.a).unwrap_or(false);
            if a_changed {
                check_dependence("prover", "A (other RNG stream)", &prun.draws, &p2.draws, 0, &mut res);
            } else {
                *res.outcome_counter("A-unchanged-by-another-RNG-stream(skipped)") += 1;
            }
        }

        // ---------------- functional dependence, prover messages (verifier role)
        if !rp.l.is_empty() {
            let hb = built.params.h_base().clone();
            let mut pts: Vec<(PPos, usize)> = vec![(PPos::A, 0), (PPos::A1, 2 + k), (PPos::B, 2 + k)];
            for j in 0..k {
                pts.push((PPos::L(j), 2 + j));
                pts.push((PPos::R(j), 2 + j));
            }
            for (pos, first) in pts {
                if let Some(bytes) = mutate::apply::<P>(&rp, &Mut::PointPlusH(pos.clone()), &hb) {
                    if let Ok(p2) = P::from_bytes(&bytes) {
                        if let Some(v2) = verifier_run::<P>(&built.statement, &p2, &ctx) {
                            res.executions += 1;
                            check_dependence("verifier", &format!("{:?}", pos), &vrun.draws, &v2.draws, first, &mut res);
                        }
                    }
                }
            }
        }

        // ---------------- over-long proofs: whatever the verifier draws after the rounds, data appended to the proof is in it
        // (two proofs that differ only in an appended (L, R) pair; in every mode, with a seed where recovery is defined)
        if !rp.l.is_empty() {
            let hb = built.params.h_base().clone();
            let st_modes = if cfg.m == 1 {
                restate(&built, built.commitments.clone(), wit.promises.clone(), Some(seed_scalar(4))).ok()
            } else {
                Some(built.statement.clone())
            };
            let x_bytes = mutate::apply::<P>(&rp, &Mut::AppendRounds(1), &hb);
            let y_bytes = x_bytes.as_ref().and_then(|b| refbp::ref_decode(b)).and_then(|x| mutate::apply::<P>(&x, &Mut::PointPlusH(PPos::L(k)), &hb));
            if let (Some(st), Some(xb), Some(yb)) = (st_modes, x_bytes, y_bytes) {
                if let (Ok(px), Ok(py)) = (P::from_bytes(&xb), P::from_bytes(&yb)) {
                    for mode in MODES {
                        let (vx, vy) = (verifier_run_mode::<P>(&st, &px, &ctx, mode), verifier_run_mode::<P>(&st, &py, &ctx, mode));
                        res.executions += 2;
                        if let (Some(vx), Some(vy)) = (vx, vy) {
                            let (nx, ny) = (vx.draws.bytes.len(), vy.draws.bytes.len());
                            *res.outcome_counter(&format!("over-long-proof-draws:{}", nx)) += 1;
                            // draws after the k honest rounds (an extra round challenge, the final challenge) come after the
                            // appended pair in the proof: each of them must see it
                            if nx == ny {
                                for i in (2 + k)..nx {
                                    res.validated += 1;
                                    if vx.draws.bytes[i] == vy.draws.bytes[i] {
                                        res.violate(
                                            format!("verifier/over-long/{}/challenge{}", mode_name(mode), i),
                                            format!("challenge #{} of an over-long proof ({} rounds for {}) does not change when the appended L changes ({})", i, k + 1, k, mode_name(mode)),
                                        );
                                    }
                                }
                            }
                        }
                    }
                }
            }
        }

        // ---------------- a proof is bound to the context in which it was created
        for c2 in contexts() {
            if c2 == ctx {
                continue;
            }
            let obs = verify_observed_one(&built.statement, &proof, &c2, VerifyAction::VerifyOnly);
            res.executions += 1;
            *res.outcome_counter(&format!("other-context:{}", obs.class())) += 1;
            if !obs.is_err() {
                res.violate(format!("context/{}", c2.key()), format!("proof created under {} verified under {}: {}", ctx.key(), c2.key(), obs.describe()));
            }
        }
        res.sample = Some(json!({"cfg": cfg.key(), "group": P::NAME, "draws": 3 + k}));
        res
    })
}

/// Batch members keep their own transcript: perturbing the context of member i changes member i's challenges only
fn batch_case<P: G>(len: usize) -> Box<dyn Case> {
    batch_case_sizes::<P>(len, "uniform")
}

/// `sizes`: "uniform" (every member one commitment), "larger-second" / "larger-last" (one member aggregates two: the member the
/// verifier sizes the batch by is not the first)
fn batch_case_sizes<P: G>(len: usize, sizes: &'static str) -> Box<dyn Case> {
    case(format!("{}/batch-contexts/L={}{}", P::NAME, len, if sizes == "uniform" { String::new() } else { format!("/{}", sizes) }), move |_v| {
        fg::clear_intern();
        let mut res = CaseResult::new("explored");
        let mut sts = Vec::new();
        let mut proofs = Vec::new();
        let mut ctxs = Vec::new();
        for pos in 0..len {
            let big = (sizes == "larger-second" && pos == 1) || (sizes == "larger-last" && pos == len - 1);
            let cfg = if big { Cfg::new(2, 2, 2, 1) } else { Cfg::new(2, 1, 1, 1) };
            let mut wit = Wit::default_for(&cfg);
            wit.values[0] = (pos % 4) as u64;
            wit.blindings[0][0] = blinding(7000 + pos, 0);
            let ctx = contexts()[pos % 6];
            let built = build_cached::<P>(&cfg, &wit).honest();
            proofs.push(lib_prove_honest(&built, &ctx, &mut HRng::chacha(pos as u64)));
            sts.push(built.statement.clone());
            ctxs.push(ctx);
        }
        let run = |ctxs: &[Ctx]| -> (bool, Vec<Vec<Vec<u8>>>) {
            merlin::observe::start();
            let mut ts: Vec<merlin::Transcript> = ctxs.iter().map(|c| c.transcript()).collect();
            let ids_before = ts.len();
            let r = catch(|| P::verify(&mut ts, &sts, &proofs, VerifyAction::VerifyOnly));
            let trace = merlin::observe::take();
            // group challenge draws by transcript id, in order of first appearance (caller transcripts are created in order)
            let mut order: Vec<u64> = Vec::new();
            let mut per: BTreeMap<u64, Vec<Vec<u8>>> = BTreeMap::new();
            for e in &trace {
                if let Op::New { .. } = e.op {
                    if order.len() < ids_before {
                        order.push(e.tid);
                    }
                }
                if let Op::Challenge { out, .. } = &e.op {
                    per.entry(e.tid).or_default().push(out.clone());
                }
            }
            (matches!(r, Ok(Ok(_))), order.iter().map(|t| per.get(t).cloned().unwrap_or_default()).collect())
        };
        let (ok, base) = run(&ctxs);
        res.executions += 1;
        if !ok {
            // whether an all-valid batch is accepted is C03's question; this property's is whether every member was replayed on
            // its OWN transcript: its challenges inside the batch are the challenges it gets when verified alone
            let mut own_transcript = true;
            for i in 0..len.min(8) {
                merlin::observe::start();
                let mut ts = vec![ctxs[i].transcript()];
                let _ = catch(|| P::verify(&mut ts, std::slice::from_ref(&sts[i]), std::slice::from_ref(&proofs[i]), VerifyAction::VerifyOnly));
                let alone: Vec<Vec<u8>> = merlin::observe::take()
                    .iter()
                    .filter_map(|e| if let Op::Challenge { out, .. } = &e.op { Some(out.clone()) } else { None })
                    .collect();
                res.executions += 1;
                res.validated += 1;
                if !base[i].is_empty() && base[i] != alone {
                    own_transcript = false;
                    res.violate(
                        format!("base/member{}", i),
                        format!("inside the batch member {} draws challenges other than those it draws alone under the same context (it was replayed on another transcript)", i),
                    );
                }
            }
            if own_transcript {
                res.outcome = "all-valid-batch-not-accepted(skipped)".into();
            }
            return res;
        }
        for i in [0usize, 1, len / 2, len - 2, len - 1] {
            if i >= len {
                continue;
            }
            res.transitions += 1;
            let mut c2 = ctxs.clone();
            c2[i] = contexts()[(i + 1) % 6];
            let (ok2, pert) = run(&c2);
            res.executions += 1;
            res.validated += 1;
            if ok2 {
                res.violate(format!("member{}", i), format!("batch accepted although the transcript context of member {} was replaced", i));
            }
            for j in 0..len {
                if j != i && pert[j].is_empty() {
                    continue; // a chunk after the failing one is never reached: no draws to compare
                }
                let changed = base[j] != pert[j];
                if (j == i) != changed {
                    res.violate(
                        format!("member{}/challenges-of-{}", i, j),
                        format!("replacing the context of member {}: challenges of member {} changed = {}", i, j, changed),
                    );
                    break;
                }
            }
        }
        res
    })
}

/// The same statement and proof submitted twice in one call under DIFFERENT transcript contexts (one of them the context the
/// proof was made under): each copy is replayed on its own transcript, so the copy under the foreign context draws other
/// challenges than the genuine one and the batch is refused
fn identical_members_case<P: G>(cfg: Cfg) -> Box<dyn Case> {
    case(format!("{}/{}/identical-members-different-contexts", P::NAME, cfg.key()), move |_v| {
        fg::clear_intern();
        let mut res = CaseResult::new("explored");
        let wit = Wit::default_for(&cfg);
        let built = build_cached::<P>(&cfg, &wit).honest();
        let (ctx_a, ctx_b) = (contexts()[0], contexts()[4]);
        let proof = lib_prove_honest(&built, &ctx_a, &mut HRng::chacha(5));
        if !verify_observed_one(&built.statement, &proof, &ctx_a, VerifyAction::VerifyOnly).is_ok() {
            res.outcome = "honest-proof-not-accepted(skipped)".into();
            return res;
        }
        for (name, ctxs) in [("genuine,foreign", vec![ctx_a, ctx_b]), ("foreign,genuine", vec![ctx_b, ctx_a]), ("genuine,genuine,foreign", vec![ctx_a, ctx_a, ctx_b])] {
            res.transitions += 1;
            let sts = vec![built.statement.clone(); ctxs.len()];
            let proofs: Vec<_> = ctxs.iter().map(|_| P::proof_clone(&proof)).collect();
            merlin::observe::start();
            let mut ts: Vec<merlin::Transcript> = ctxs.iter().map(|c| c.transcript()).collect();
            let r = catch(|| P::verify(&mut ts, &sts, &proofs, VerifyAction::VerifyOnly));
            let trace = merlin::observe::take();
            res.executions += 1;
            res.validated += 1;
            // per caller transcript (in creation order): its challenge draws
            let mut order: Vec<u64> = Vec::new();
            let mut per: BTreeMap<u64, Vec<Vec<u8>>> = BTreeMap::new();
            for e in &trace {
                if let Op::New { .. } = e.op {
                    if order.len() < ctxs.len() {
                        order.push(e.tid);
                    }
                }
                if let Op::Challenge { out, .. } = &e.op {
                    per.entry(e.tid).or_default().push(out.clone());
                }
            }
            let draws: Vec<Vec<Vec<u8>>> = order.iter().map(|t| per.get(t).cloned().unwrap_or_default()).collect();
            if matches!(r, Ok(Ok(_))) {
                res.violate(format!("{}/verdict", name), "a proof presented under a transcript context it was not made under was accepted (next to a copy under its own context)");
            }
            let genuine = ctxs.iter().position(|c| *c == ctx_a).unwrap();
            for (i, c) in ctxs.iter().enumerate() {
                if *c == ctx_b {
                    *res.outcome_counter("foreign-context-copies") += 1;
                    if draws[i].is_empty() {
                        res.violate(format!("{}/member{}", name, i), "no challenge was drawn from the transcript of the copy under the foreign context (its transcript was not replayed)");
                    } else if draws[i] == draws[genuine] {
                        res.violate(format!("{}/member{}", name, i), "the copy under the foreign context draws the same challenges as the copy under the genuine context");
                    }
                }
            }
        }
        res
    })
}

/// Every member's challenges depend on ITS OWN commitment generators: a batch in which a later member's statement declares a
/// generator vector that differs from the first member's in ONE position (the others equal) is refused, and if the verifier
/// derives challenges for that member at all they are not those of the unaltered statement
fn batch_generator_case<P: G>(d: usize) -> Box<dyn Case> {
    case(format!("{}/d={}/batch-own-generators", P::NAME, d), move |_v| {
        fg::clear_intern();
        let mut res = CaseResult::new("explored");
        let cfg = Cfg::new(2, 1, 1, d);
        let w0 = Wit::default_for(&cfg);
        let mut w1 = Wit::default_for(&cfg);
        w1.values[0] = 2;
        w1.blindings[0][0] = blinding(7100, 0);
        let b0 = build_cached::<P>(&cfg, &w0).honest();
        let b1 = build_cached::<P>(&cfg, &w1).honest();
        let p0 = lib_prove_honest(&b0, &CTX_A, &mut HRng::chacha(1));
        let p1 = lib_prove_honest(&b1, &CTX_A, &mut HRng::chacha(2));
        let pc = b0.params.pc_gens().clone();
        let mut variants: Vec<(String, tari_bulletproofs_plus::generators::pedersen_gens::PedersenGens<P>)> = Vec::new();
        for k in 0..d {
            let mut g = pc.g_base_vec.clone();
            g[k] = g[k].g_add(&pc.h_base);
            variants.push((format!("G{}", k), pc_gens_from(pc.h_base.clone(), g)));
        }
        variants.push(("H".into(), pc_gens_from(pc.h_base.g_add(&pc.g_base_vec[0]), pc.g_base_vec.clone())));
        for (what, pc2) in variants {
            // member 1's statement over the altered generators (same commitments: the proof is the honest one for the unaltered
            // statement, so only a verifier that hashes member 0's generators for member 1 can accept)
            let params2 = match P::params(cfg.n, cfg.c, pc2) {
                Ok(p) => p,
                Err(_) => continue,
            };
            let st1 = match P::statement(params2, b1.commitments.clone(), w1.promises.clone(), None) {
                Ok(s) => s,
                Err(_) => continue,
            };
            for (name, sts, proofs) in [
                ("altered-second", vec![b0.statement.clone(), st1.clone()], vec![P::proof_clone(&p0), P::proof_clone(&p1)]),
                ("altered-first", vec![st1.clone(), b0.statement.clone()], vec![P::proof_clone(&p1), P::proof_clone(&p0)]),
            ] {
                res.transitions += 1;
                let mut ts = vec![CTX_A.transcript(), CTX_A.transcript()];
                let obs = verify_observed(&sts, &proofs, &mut ts, VerifyAction::VerifyOnly);
                res.executions += 1;
                res.validated += 1;
                *res.outcome_counter(&format!("own-generators:{}", obs.class())) += 1;
                if !obs.is_err() {
                    res.violate(
                        format!("{}/{}", what, name),
                        format!("a batch in which one member's statement declares another {} (everything else equal) was not refused: {}", what, obs.describe()),
                    );
                }
            }
        }
        res
    })
}

pub fn run(rep: &mut Report) {
    rep.rule = "configuration lattice x roles {prover, verifier} x every (datum, challenge) pair: (1) trace binding -- the multiset of data \
                absorbed into the caller's transcript before each of the 3+k challenge draws contains every datum that must precede it \
                (context label/message, H, each G_k, N, T, M, each commitment, each promise, A, L_j/R_j up to that round, A1, B); (2) \
                functional dependence -- each single-datum perturbation through the public API changes every challenge drawn after \
                the datum and none before; the same with the identity element as first commitment of an aggregate; (3) context binding; batches of 3 and 300 (and of 2 and 3 in which a later member is the largest): replacing one member's context changes exactly \
                that member's challenges; the same statement and proof twice in one call under the genuine and a foreign context"
        .into();
    let tier = rep.tier;
    let mut cases: Vec<Box<dyn Case>> = Vec::new();
    for cfg in lattice(tier.thorough()) {
        cases.push(fs_case::<F>(cfg));
        cases.push(fs_case::<RistrettoPoint>(cfg));
        if cfg.m >= 2 && (tier.thorough() || cfg.big_n() <= 64) {
            cases.push(fs_case_variant::<F>(cfg, true));
            cases.push(fs_case_variant::<RistrettoPoint>(cfg, true));
        }
    }
    for len in [3usize, 300] {
        cases.push(batch_case::<F>(len));
        cases.push(batch_case::<RistrettoPoint>(len));
    }
    for cfg in [Cfg::new(2, 1, 1, 1), Cfg::new(8, 2, 2, 2), Cfg::new(64, 1, 2, 1)] {
        cases.push(identical_members_case::<F>(cfg));
        cases.push(identical_members_case::<RistrettoPoint>(cfg));
    }
    for d in [1usize, 2, 3, 6] {
        cases.push(batch_generator_case::<F>(d));
        cases.push(batch_generator_case::<RistrettoPoint>(d));
    }
    for sizes in ["larger-second", "larger-last"] {
        for len in [2usize, 3] {
            cases.push(batch_case_sizes::<F>(len, sizes));
            cases.push(batch_case_sizes::<RistrettoPoint>(len, sizes));
        }
    }
    rep.explore("C04", cases);
    rep.expect_sub_outcome("dependence-pairs-checked");
    rep.expect_sub_outcome("other-context:Err:VerificationFailed");
}
