//! C02 Soundness: the verifier enforces exactly the Bulletproofs+ relation (DESIGN.md 3, C02)
//!
//! Deciding step: for every configuration x proof shape the library verifier's verdict is compared with the reference
//! evaluation of the relation, and (over F) the element it compares with the identity is compared with the reference
//! linear form as a coefficient vector.

use curve25519_dalek::{ristretto::RistrettoPoint, scalar::Scalar};
use serde_json::json;
use tari_bulletproofs_plus::{range_proof::VerifyAction, range_statement::RangeStatement};

use crate::{
    api::{pc_gens_from, HRng, G},
    common::*,
    engine::{case, Case, CaseResult, Report, Tier},
    fg::{self, F},
    mutate::{self, Mut},
    refbp::{self, Nonces, RefProof, RefStatement, RefVerdict},
};

/// verdict(library) == verdict(reference) on one (statement, bytes, context)
pub fn verdict_compare<P: G>(st: &RangeStatement<P>, bytes: &[u8], ctx: &Ctx, sub: &str, res: &mut CaseResult) {
    let lib_proof = match catch(|| P::from_bytes(bytes)) {
        Ok(Ok(p)) => p,
        Ok(Err(_)) => {
            // the library's decoder refuses: the reference decoder must refuse too (C15 decides the exact set)
            *res.outcome_counter("lib-decode-refused") += 1;
            return;
        },
        Err(p) => {
            res.violate(format!("{}/decode", sub), format!("decoder panicked: {}", p));
            return;
        },
    };
    let rst = ref_statement(st);
    let rp = match refbp::ref_decode(bytes) {
        Some(p) => p,
        None => {
            // which byte strings decode is C15's property
            res.binding_note(format!("{}/decode", sub), "reference decoder refuses bytes the library decodes (C15)");
            return;
        },
    };
    let mut t = ctx.transcript();
    let chk = refbp::ref_verify(&mut t, &rst, &rp);
    for mode in [VerifyAction::VerifyOnly, VerifyAction::RecoverAndVerify] {
        let obs = verify_observed_one(st, &lib_proof, ctx, mode);
        res.executions += 1;
        res.validated += 1;
        if obs.panic.is_some() {
            res.violate(format!("{}/{}", sub, mode_name(mode)), format!("verifier panicked: {}", obs.describe()));
            continue;
        }
        if obs.is_ok() != chk.verdict.accepts() {
            res.violate(
                format!("{}/{}", sub, mode_name(mode)),
                format!("library says {} but the reference relation says {:?}", obs.describe(), chk.verdict),
            );
        }
        *res.outcome_counter(if obs.is_ok() { "lib-accept" } else { "lib-reject" }) += 1;
        // challenges drawn by the library == challenges the reference transcript derives
        if let Some(ch) = &chk.challenges {
            let drawn: Vec<Scalar> = trace_challenges(&obs.trace).into_iter().map(|x| x.1).collect();
            let mut expect = vec![ch.y, ch.z];
            expect.extend(ch.rounds.iter().cloned());
            expect.push(ch.e);
            if drawn.len() == expect.len() {
                res.validated += 1;
                if drawn != expect {
                    res.violate(format!("{}/challenges", sub), "challenges drawn by the verifier differ from the reference transcript's");
                }
            }
        }
    }
}

/// Over F: put a marker on B, compare the element the library compares with the identity against the reference
/// linear form, coefficient by coefficient.
pub fn coeff_identity(st: &RangeStatement<F>, rp: &RefProof, ctx: &Ctx, sub: &str, res: &mut CaseResult) {
    let marker = fg::basis(&format!("mark:{}", sub));
    let marker_id = *marker.0.keys().next().unwrap();
    let b_pt = match F::g_decompress(&rp.b) {
        Some(b) if !b.is_zero() => b,
        _ => return, // B not a usable point: the library refuses before the final comparison (verdict_compare covers it)
    };
    let mut marked = rp.clone();
    marked.b = b_pt.g_add(&marker).g_compress();
    let bytes = refbp::ref_encode(&marked);
    let lib_proof = match F::from_bytes(&bytes) {
        Ok(p) => p,
        Err(_) => return,
    };
    let rst = ref_statement(st);
    let mut t = ctx.transcript();
    let chk = refbp::ref_verify(&mut t, &rst, &marked);
    let obs = verify_observed_one(st, &lib_proof, ctx, VerifyAction::VerifyOnly);
    res.executions += 1;
    if obs.panic.is_some() {
        res.violate(format!("{}/marked", sub), format!("verifier panicked: {}", obs.describe()));
        return;
    }
    if obs.is_ok() {
        res.violate(format!("{}/marked", sub), "a proof whose B carries a foreign basis element was accepted");
        return;
    }
    let lib_res = obs.residuals.iter().rev().find(|r| r.coeff(marker_id) != Scalar::ZERO).cloned();
    match (lib_res, chk.residual) {
        (Some(lr), Some(rr)) => {
            let w = lr.coeff(marker_id);
            res.validated += 1;
            let expect = rr.scaled(&w);
            if lr.0 != expect.0 {
                // describe the first differing coordinates
                let mut diff = lr.clone();
                diff.add_scaled(&expect, &(-Scalar::ONE));
                res.violate(
                    format!("{}/coefficients", sub),
                    format!(
                        "the element the verifier compares with the identity is not (weight x) the Bulletproofs+ linear form; {} coordinates differ, e.g. {:?}",
                        diff.support(),
                        diff.describe(6)
                    ),
                );
            }
            *res.outcome_counter("coefficient-identity-checked") += 1;
        },
        (None, Some(_)) => {
            // the library refused before the final comparison although the reference reaches it
            res.violate(
                format!("{}/early-refusal", sub),
                format!("library refused ({}) a well-shaped proof before evaluating the relation", obs.describe()),
            );
        },
        (Some(_), None) => {
            res.violate(
                format!("{}/shape", sub),
                format!("library evaluated the relation on a proof the reference refuses for its shape: {:?}", chk.verdict),
            );
        },
        (None, None) => {
            *res.outcome_counter("both-refuse-shape") += 1;
        },
    }
}

fn f_statement(cfg: &Cfg, wit: &Wit) -> Built<F> {
    build_cached::<F>(cfg, wit).expect("valid F statement")
}

/// Shapes (a) honest and (b) every single mutation, over one group
fn shape_honest_and_mutants<P: G>(cfg: Cfg, tier: Tier) -> Vec<Box<dyn Case>> {
    let mut cases: Vec<Box<dyn Case>> = Vec::new();
    let key = format!("{}/{}/honest+mutants", P::NAME, cfg.key());
    let reduced = !P::IS_F && !(tier.thorough() && cfg.big_n() <= 64);
    cases.push(case(key, move |_v| {
        fg::clear_intern();
        let mut res = CaseResult::new("explored");
        let mut wit = Wit::default_for(&cfg);
        if cfg.m >= 1 {
            wit.promises[0] = Some(wit.values[0] / 2);
        }
        let built = build_cached::<P>(&cfg, &wit).honest();
        let proof = lib_prove_honest(&built, &CTX_A, &mut HRng::chacha(7));
        let bytes = P::to_bytes(&proof);
        let rp = match refbp::ref_decode(&bytes) {
            Some(p) => p,
            None => {
                // n*m = 1: zero-round proof, not representable on the wire (known finding of C15); verify the object
                let rp0 = ref_proof_of(&proof).expect("zero-round form");
                let rst = ref_statement(&built.statement);
                let mut t = CTX_A.transcript();
                let chk = refbp::ref_verify(&mut t, &rst, &rp0);
                let obs = verify_observed_one(&built.statement, &proof, &CTX_A, VerifyAction::VerifyOnly);
                res.executions += 1;
                res.validated += 1;
                if obs.is_ok() != chk.verdict.accepts() {
                    res.violate("honest", format!("library {} vs reference {:?}", obs.describe(), chk.verdict));
                }
                return res;
            },
        };
        verdict_compare(&built.statement, &bytes, &CTX_A, "honest", &mut res);
        let h = built.params.h_base().clone();
        for m in mutate::menu(&rp, reduced) {
            if let Some(b) = mutate::apply::<P>(&rp, &m, &h) {
                res.transitions += 1;
                verdict_compare(&built.statement, &b, &CTX_A, &format!("{:?}", m), &mut res);
            }
        }
        res.sample = Some(json!({"cfg": cfg.key(), "group": P::NAME, "mutations": res.transitions}));
        res
    }));
    cases
}

/// Over F: coefficient identity for honest-shaped and mutated proofs
fn shape_coefficients_f(cfg: Cfg) -> Box<dyn Case> {
    case(format!("freemodule/{}/coefficient-identity", cfg.key()), move |_v| {
        fg::clear_intern();
        let mut res = CaseResult::new("explored");
        let mut wit = Wit::default_for(&cfg);
        wit.promises[cfg.m - 1] = Some(wit.values[cfg.m - 1] / 3);
        let built = f_statement(&cfg, &wit);
        let proof = lib_prove_honest(&built, &CTX_A, &mut HRng::chacha(8));
        let rp = ref_proof_of(&proof).expect("decodes");
        if rp.l.is_empty() {
            // zero-round proofs cannot go through from_bytes (C15 known finding); nothing to mark
            return res;
        }
        coeff_identity(&built.statement, &rp, &CTX_A, "honest", &mut res);
        let h = built.params.h_base().clone();
        for m in mutate::menu(&rp, false) {
            if matches!(m, Mut::ExtTag(_)) {
                continue;
            }
            if let Some(b) = mutate::apply::<F>(&rp, &m, &h) {
                if let Some(q) = refbp::ref_decode(&b) {
                    res.transitions += 1;
                    coeff_identity(&built.statement, &q, &CTX_A, &format!("{:?}", m), &mut res);
                }
            }
        }
        res
    })
}

/// Shape (c): generic proofs -- every point of the proof and every commitment a fresh symbol
fn shape_generic_f(cfg: Cfg) -> Box<dyn Case> {
    case(format!("freemodule/{}/generic-proofs", cfg.key()), move |_v| {
        fg::clear_intern();
        let mut res = CaseResult::new("explored");
        let k = cfg.rounds();
        if k == 0 {
            return res;
        }
        let params = params_cached::<F>(&cfg);
        let commitments: Vec<F> = (0..cfg.m).map(|j| fg::basis(&format!("sym:V{}", j))).collect();
        let sym = |name: &str| fg::basis(&format!("sym:{}", name)).g_compress();
        let honest_like = |i: u64| wide_scalar("generic-response", i, cfg.n as u64);
        let big = -Scalar::from(3u8);
        let base = RefProof {
            ext: cfg.d as u8,
            d1: (0..cfg.d).map(|i| honest_like(10 + i as u64)).collect(),
            a: sym("A"),
            a1: sym("A1"),
            b: sym("B"),
            r1: honest_like(1),
            s1: honest_like(2),
            l: (0..k).map(|j| sym(&format!("L{}", j))).collect(),
            r: (0..k).map(|j| sym(&format!("R{}", j))).collect(),
        };
        let max = cfg.max_value();
        let promise_alphabet: Vec<Option<u64>> = vec![None, Some(0), Some(1), Some(max)];
        for (pi, promise) in promise_alphabet.iter().enumerate() {
            let mut promises = vec![None; cfg.m];
            promises[cfg.m - 1] = *promise;
            let st = F::statement(params.clone(), commitments.clone(), promises, None).expect("statement");
            // response scalars: one deviating at a time over {0, 1, large}
            let mut variants: Vec<(String, RefProof)> = vec![("base".into(), base.clone())];
            if pi == 0 {
                for pos in mutate::scalar_positions(&base) {
                    for (vn, v) in [("0", Scalar::ZERO), ("1", Scalar::ONE), ("-3", big)] {
                        let mut q = base.clone();
                        match &pos {
                            mutate::SPos::R1 => q.r1 = v,
                            mutate::SPos::S1 => q.s1 = v,
                            mutate::SPos::D1(i) => q.d1[*i] = v,
                        }
                        variants.push((format!("{:?}={}", pos, vn), q));
                    }
                }
            }
            for (name, q) in variants {
                res.transitions += 1;
                generic_identity(&st, &q, &format!("promise={:?}/{}", promise, name), &mut res);
            }
        }
        res
    })
}

/// Residual of a generic proof: no marker needed, the symbol of B reads the weight
fn generic_identity(st: &RangeStatement<F>, q: &RefProof, sub: &str, res: &mut CaseResult) {
    let bytes = refbp::ref_encode(q);
    let lib_proof = match F::from_bytes(&bytes) {
        Ok(p) => p,
        Err(e) => {
            res.machinery_error(format!("generic proof does not decode: {}", crate::api::err_name(&e)));
            return;
        },
    };
    let b_id = fg::basis_id("sym:B");
    let rst = ref_statement(st);
    let mut t = CTX_A.transcript();
    let chk = refbp::ref_verify(&mut t, &rst, q);
    let obs = verify_observed_one(st, &lib_proof, &CTX_A, VerifyAction::VerifyOnly);
    res.executions += 1;
    if obs.panic.is_some() || obs.is_ok() {
        res.violate(sub.to_string(), format!("generic (symbolic) proof: {}", obs.describe()));
        return;
    }
    let lib_res = obs.residuals.iter().rev().find(|r| r.coeff(b_id) != Scalar::ZERO).cloned();
    match (lib_res, chk.residual) {
        (Some(lr), Some(rr)) => {
            let w = lr.coeff(b_id);
            res.validated += 1;
            let expect = rr.scaled(&w);
            if lr.0 != expect.0 {
                let mut diff = lr.clone();
                diff.add_scaled(&expect, &(-Scalar::ONE));
                res.violate(
                    format!("{}/coefficients", sub),
                    format!(
                        "verifier's linear form differs from the Bulletproofs+ relation on {} coordinates, e.g. {:?}",
                        diff.support(),
                        diff.describe(6)
                    ),
                );
            }
            *res.outcome_counter("coefficient-identity-checked") += 1;
        },
        (l, r) => {
            res.violate(
                format!("{}/reach", sub),
                format!(
                    "library reached final check: {}, reference reached it: {} ({:?}, {})",
                    l.is_some(),
                    r.is_some(),
                    chk.verdict,
                    obs.describe()
                ),
            );
        },
    }
}

/// Shape (d): dishonest-witness proofs made by the reference prover with the range check removed
fn shape_dishonest<P: G>(cfg: Cfg) -> Box<dyn Case> {
    case(format!("{}/{}/dishonest-witness", P::NAME, cfg.key()), move |_v| {
        fg::clear_intern();
        let mut res = CaseResult::new("explored");
        if cfg.n >= 64 || cfg.rounds() == 0 {
            return res; // 2^64 does not fit a u64 commitment value; n*m=1 has no wire form
        }
        let n = cfg.n;
        let params = params_cached::<P>(&cfg);
        let base = Wit::default_for(&cfg);
        let two_n = Scalar::from(1u64 << (n - 1)) * Scalar::from(2u8);
        // (name, value-minus-promise as scalar, digit vector for the bad position)
        let mut attempts: Vec<(String, Scalar, Vec<Scalar>)> = Vec::new();
        let zeros = vec![Scalar::ZERO; n];
        {
            let mut d = zeros.clone();
            d[0] = -Scalar::ONE;
            attempts.push(("v-p=-1".into(), -Scalar::ONE, d));
            let mut d = zeros.clone();
            d[n - 1] += Scalar::from(2u8);
            attempts.push(("v-p=2^n".into(), two_n, d));
            let mut d = zeros.clone();
            d[n - 1] += Scalar::from(2u8);
            d[0] += Scalar::ONE;
            attempts.push(("v-p=2^n+1".into(), two_n + Scalar::ONE, d));
        }
        // in-range value written with one non-bit digit at each digit position in turn (carry trick)
        for i in 0..n.saturating_sub(1) {
            let v = 1u64 << (i + 1);
            let mut d = zeros.clone();
            d[i] = Scalar::from(2u8);
            attempts.push((format!("nonbit-digit[{}]", i), Scalar::from(v), d));
        }
        for pos in [0, cfg.m - 1] {
            for (name, vmp, digits_at) in &attempts {
                let promise: Option<u64> = if name == "v-p=-1" { Some(1) } else { None };
                let value_scalar = *vmp + Scalar::from(promise.unwrap_or(0));
                let mut promises = base.promises.clone();
                promises[pos] = promise;
                let mut commitments = Vec::new();
                let mut digits = Vec::new();
                for j in 0..cfg.m {
                    if j == pos {
                        commitments.push(P::commit(params.pc_gens(), &value_scalar, &base.blindings[j]).unwrap());
                        digits.extend(digits_at.iter().cloned());
                    } else {
                        commitments.push(
                            P::commit(params.pc_gens(), &Scalar::from(base.values[j]), &base.blindings[j]).unwrap(),
                        );
                        for i in 0..n {
                            digits.push(Scalar::from((base.values[j] >> i) & 1));
                        }
                    }
                }
                let st = match P::statement(params.clone(), commitments, promises, None) {
                    Ok(s) => s,
                    Err(_) => continue,
                };
                let rst: RefStatement<P> = ref_statement(&st);
                let nonces = Nonces {
                    alpha: (0..cfg.d).map(|k| wide_scalar("fa", k as u64, 0)).collect(),
                    dl: (0..cfg.rounds()).map(|j| (0..cfg.d).map(|k| wide_scalar("fl", j as u64, k as u64)).collect()).collect(),
                    dr: (0..cfg.rounds()).map(|j| (0..cfg.d).map(|k| wide_scalar("fr", j as u64, k as u64)).collect()).collect(),
                    delta: (0..cfg.d).map(|k| wide_scalar("fd", k as u64, 0)).collect(),
                    eta: (0..cfg.d).map(|k| wide_scalar("fe", k as u64, 0)).collect(),
                    r: wide_scalar("fr1", 0, 0),
                    s: wide_scalar("fs1", 0, 0),
                };
                let mut t = CTX_A.transcript();
                let out = refbp::ref_prove(&mut t, &rst, &digits, &base.blindings, &nonces);
                // non-vacuity: the reference relation itself rejects the forgery attempt
                let mut t2 = CTX_A.transcript();
                let chk = refbp::ref_verify(&mut t2, &rst, &out.proof);
                if chk.verdict == RefVerdict::Accept {
                    res.machinery_error(format!("reference relation accepts forgery attempt {}", name));
                    continue;
                }
                if chk.verdict != RefVerdict::Reject {
                    // refused for its shape (e.g. an identity generator in the parameters): nothing algebraic to compare
                    *res.outcome_counter("forgery-refused-by-shape(skipped)") += 1;
                    continue;
                }
                res.transitions += 1;
                let bytes = refbp::ref_encode(&out.proof);
                let sub = format!("pos{}/{}", pos, name);
                verdict_compare(&st, &bytes, &CTX_A, &sub, &mut res);
            }
        }
        // sanity of the forgery machinery: honest digits through the same path ARE accepted by the library
        let built = build_cached::<P>(&cfg, &base).honest();
        let rst = ref_statement(&built.statement);
        let digits = refbp::honest_digits(n, &base.values, &base.promises).unwrap();
        let nonces = Nonces {
            alpha: (0..cfg.d).map(|k| wide_scalar("fa", k as u64, 0)).collect(),
            dl: (0..cfg.rounds()).map(|j| (0..cfg.d).map(|k| wide_scalar("fl", j as u64, k as u64)).collect()).collect(),
            dr: (0..cfg.rounds()).map(|j| (0..cfg.d).map(|k| wide_scalar("fr", j as u64, k as u64)).collect()).collect(),
            delta: (0..cfg.d).map(|k| wide_scalar("fd", k as u64, 0)).collect(),
            eta: (0..cfg.d).map(|k| wide_scalar("fe", k as u64, 0)).collect(),
            r: wide_scalar("fr1", 0, 0),
            s: wide_scalar("fs1", 0, 0),
        };
        let mut t = CTX_A.transcript();
        let out = refbp::ref_prove(&mut t, &rst, &digits, &base.blindings, &nonces);
        let bytes = refbp::ref_encode(&out.proof);
        let p = P::from_bytes(&bytes).expect("reference proof decodes");
        let obs = verify_observed_one(&built.statement, &p, &CTX_A, VerifyAction::VerifyOnly);
        res.executions += 1;
        res.validated += 1;
        let mut t3 = CTX_A.transcript();
        let expect = refbp::ref_verify(&mut t3, &rst, &out.proof).verdict.accepts();
        if obs.is_ok() != expect {
            res.violate(
                "reference-prover-honest",
                format!("an honest proof made by the reference prover: library says {}, the reference verifier says accept = {}", obs.describe(), expect),
            );
        }
        res
    })
}

/// Shape (e): wrong-shape proofs built through from_bytes
fn shape_wrong_shape<P: G>(cfg: Cfg) -> Box<dyn Case> {
    case(format!("{}/{}/wrong-shape", P::NAME, cfg.key()), move |_v| {
        fg::clear_intern();
        let mut res = CaseResult::new("explored");
        let k = cfg.rounds();
        let wit = Wit::default_for(&cfg);
        let built = build_cached::<P>(&cfg, &wit).honest();
        let proof = lib_prove_honest(&built, &CTX_A, &mut HRng::chacha(9));
        let rp = ref_proof_of(&proof).unwrap();
        let filler = built.params.h_base().g_compress();
        let mut round_counts: Vec<usize> = (1..=k + 2).filter(|x| *x != k).collect();
        round_counts.extend([31, 32, 63, 64, 70]);
        for k2 in round_counts {
            let mut q = rp.clone();
            q.l.resize(k2, filler);
            q.r.resize(k2, filler);
            res.transitions += 1;
            verdict_compare(&built.statement, &refbp::ref_encode(&q), &CTX_A, &format!("rounds={}", k2), &mut res);
        }
        for d2 in 1..=6usize {
            if d2 == cfg.d || k == 0 {
                continue;
            }
            let mut q = rp.clone();
            q.ext = d2 as u8;
            q.d1.resize(d2, Scalar::ONE);
            res.transitions += 1;
            verdict_compare(&built.statement, &refbp::ref_encode(&q), &CTX_A, &format!("degree={}", d2), &mut res);
        }
        res
    })
}

/// (iv) environment deviations: the zero challenge injected at each draw position (prover and verifier); the identity
/// placed at each of H, G_k
fn env_deviations<P: G>(cfg: Cfg) -> Box<dyn Case> {
    case(format!("{}/{}/environment-deviations", P::NAME, cfg.key()), move |_v| {
        fg::clear_intern();
        let mut res = CaseResult::new("explored");
        let wit = Wit::default_for(&cfg);
        let built = build_cached::<P>(&cfg, &wit).honest();
        let proof = lib_prove_honest(&built, &CTX_A, &mut HRng::chacha(10));
        let draws = 3 + cfg.rounds();
        for i in 0..draws {
            // verifier
            merlin::observe::zero_challenge_at(Some(i));
            let obs = verify_observed_one(&built.statement, &proof, &CTX_A, VerifyAction::VerifyOnly);
            merlin::observe::zero_challenge_at(None);
            res.executions += 1;
            res.transitions += 1;
            let overridden = obs.trace.iter().any(|e| matches!(&e.op, merlin::observe::Op::Challenge { overridden: true, .. }));
            if !overridden {
                res.machinery_error(format!("zero challenge at draw {} was not injected", i));
            }
            if !obs.is_err() {
                res.violate(format!("verifier/zero-challenge@{}", i), format!("verifier did not refuse a zero challenge: {}", obs.describe()));
            }
            // prover
            merlin::observe::start();
            merlin::observe::zero_challenge_at(Some(i));
            let r = catch(|| lib_prove(&built, &CTX_A, &mut HRng::chacha(10)));
            merlin::observe::zero_challenge_at(None);
            let _ = merlin::observe::take();
            res.executions += 1;
            match r {
                Ok(Err(_)) => {},
                Ok(Ok(_)) => res.violate(format!("prover/zero-challenge@{}", i), "prover produced a proof from a zero challenge"),
                Err(p) => res.violate(format!("prover/zero-challenge@{}", i), format!("prover panicked on a zero challenge: {}", p)),
            }
        }
        // identity generators
        let pc = built.params.pc_gens().clone();
        let mut variants: Vec<(String, tari_bulletproofs_plus::generators::pedersen_gens::PedersenGens<P>)> = Vec::new();
        variants.push(("H=identity".into(), pc_gens_from(P::g_identity(), pc.g_base_vec.clone())));
        for k in 0..cfg.d {
            let mut g = pc.g_base_vec.clone();
            g[k] = P::g_identity();
            variants.push((format!("G{}=identity", k), pc_gens_from(pc.h_base.clone(), g)));
        }
        for (name, pc2) in variants {
            res.transitions += 1;
            let b2 = match build_with_pc::<P>(&cfg, &wit, pc2) {
                Ok(b) => b,
                Err(_) => continue, // refusing at construction is fine
            };
            let r = catch(|| lib_prove(&b2, &CTX_A, &mut HRng::chacha(10)));
            res.executions += 1;
            match r {
                Ok(Err(_)) => {},
                Ok(Ok(_)) => res.violate(format!("prover/{}", name), "prover produced a proof with an identity generator"),
                Err(p) => res.violate(format!("prover/{}", name), format!("prover panicked: {}", p)),
            }
            let obs = verify_observed_one(&b2.statement, &proof, &CTX_A, VerifyAction::VerifyOnly);
            res.executions += 1;
            if !obs.is_err() {
                res.violate(format!("verifier/{}", name), format!("verifier did not refuse an identity generator: {}", obs.describe()));
            }
        }
        res
    })
}

/// Shape (f): small batches mixing honest proofs with proofs whose defects are equal and opposite; the batch verdict
/// must be the conjunction of the reference verdicts of its members
fn shape_batches<P: G>(cfg: Cfg) -> Box<dyn Case> {
    case(format!("{}/{}/batch-verdicts", P::NAME, cfg.key()), move |_v| {
        fg::clear_intern();
        let mut res = CaseResult::new("explored");
        if cfg.rounds() == 0 {
            return res;
        }
        let delta = Scalar::from(0xdead_beefu64);
        // member kinds: honest, d1[k]+delta, d1[k]-delta (k = 0 and last), r1+1
        let mut kinds: Vec<(&str, i8, usize)> = vec![("honest", 0, 0), ("d1[0]+", 1, 0), ("d1[0]-", -1, 0), ("d1[last]+", 1, cfg.d - 1), ("d1[last]-", -1, cfg.d - 1), ("r1+1", 2, 0)];
        // the honest proof re-encoded under a neighbouring extension degree (one response scalar more / fewer): not a proof
        // for this statement at any batch position
        if cfg.d < 6 {
            kinds.push(("degree+1", 3, 0));
        }
        if cfg.d > 1 {
            kinds.push(("degree-1", 4, 0));
        }
        if cfg.big_n() <= 64 {
            kinds.push(("honest-other-size", 5, 0));
        }
        let mut members: Vec<Vec<(RangeStatement<P>, tari_bulletproofs_plus::range_proof::RangeProof<P>, bool)>> = Vec::new();
        for pos in 0..2usize {
            let mut row = Vec::new();
            let mut wit = Wit::default_for(&cfg);
            for j in 0..cfg.m {
                for k in 0..cfg.d {
                    wit.blindings[j][k] = blinding(300 + pos * 40 + j, k);
                }
            }
            let built = build_cached::<P>(&cfg, &wit).honest();
            let proof = lib_prove_honest(&built, &CTX_A, &mut HRng::chacha(70 + pos as u64));
            let rp = ref_proof_of(&proof).unwrap();
            let rst = ref_statement(&built.statement);
            for (_, sign, k) in &kinds {
                if *sign == 5 {
                    // an honest member of ANOTHER aggregation size (valid by the reference relation of its own statement)
                    let m2 = if cfg.m == 1 { 2 } else { 1 };
                    let cfg2 = Cfg::new(cfg.n, m2, cfg.c.max(m2), cfg.d);
                    let w2 = Wit::default_for(&cfg2);
                    let b2 = build_cached::<P>(&cfg2, &w2).honest();
                    let p2 = lib_prove_honest(&b2, &CTX_A, &mut HRng::chacha(90 + pos as u64));
                    let ok = match ref_proof_of(&p2) {
                        Some(q2) => {
                            let mut t = CTX_A.transcript();
                            refbp::ref_verify(&mut t, &ref_statement(&b2.statement), &q2).verdict.accepts()
                        },
                        None => true,
                    };
                    row.push((b2.statement.clone(), p2, ok));
                    continue;
                }
                let mut q = rp.clone();
                match sign {
                    1 => q.d1[*k] += delta,
                    -1 => q.d1[*k] -= delta,
                    2 => q.r1 += Scalar::ONE,
                    3 => {
                        q.ext += 1;
                        q.d1.push(Scalar::from(5u8));
                    },
                    4 => {
                        q.ext -= 1;
                        q.d1.pop();
                    },
                    _ => {},
                }
                let mut t = CTX_A.transcript();
                let ok = refbp::ref_verify(&mut t, &rst, &q).verdict.accepts();
                let lp = P::from_bytes(&refbp::ref_encode(&q)).expect("decodes");
                row.push((built.statement.clone(), lp, ok));
            }
            members.push(row);
        }
        // a member whose proof was made under another transcript context than the one it is presented with
        {
            let wit = Wit::default_for(&cfg);
            let built = build_cached::<P>(&cfg, &wit).honest();
            let other_ctx = contexts()[4];
            let made_under_a = lib_prove_honest(&built, &CTX_A, &mut HRng::chacha(72));
            let honest_b = lib_prove_honest(&built, &other_ctx, &mut HRng::chacha(73));
            for (name, first_proof, first_ctx, second_proof, second_ctx, expect) in [
                ("[honest@A, made-under-A-presented-with-B]", &made_under_a, CTX_A, &made_under_a, other_ctx, false),
                ("[honest@A, honest@B]", &made_under_a, CTX_A, &honest_b, other_ctx, true),
                ("[honest@B, made-under-A-presented-with-B]", &honest_b, other_ctx, &made_under_a, other_ctx, false),
            ] {
                for mode in [VerifyAction::VerifyOnly, VerifyAction::RecoverAndVerify] {
                    let sts = vec![built.statement.clone(), built.statement.clone()];
                    let proofs = vec![P::proof_clone(first_proof), P::proof_clone(second_proof)];
                    let mut ts = vec![first_ctx.transcript(), second_ctx.transcript()];
                    let obs = verify_observed(&sts, &proofs, &mut ts, mode);
                    res.executions += 1;
                    res.validated += 1;
                    *res.outcome_counter(if obs.is_ok() { "batch-accept" } else { "batch-reject" }) += 1;
                    if obs.panic.is_some() || obs.is_ok() != expect {
                        res.violate(
                            format!("{}/{}", name, mode_name(mode)),
                            format!("batch {} in {}: library says {} but each member's own transcript context decides: expected {}", name, mode_name(mode), obs.describe(), if expect { "accept" } else { "reject" }),
                        );
                    }
                }
            }
        }
        for a in 0..kinds.len() {
            for b in 0..kinds.len() {
                res.transitions += 1;
                let (sa, pa, oka) = &members[0][a];
                let (sb, pb, okb) = &members[1][b];
                let sts = vec![sa.clone(), sb.clone()];
                let proofs = vec![P::proof_clone(pa), P::proof_clone(pb)];
                for mode in [VerifyAction::VerifyOnly, VerifyAction::RecoverAndVerify] {
                    let mut ts = vec![CTX_A.transcript(), CTX_A.transcript()];
                    let obs = verify_observed(&sts, &proofs, &mut ts, mode);
                    res.executions += 1;
                    res.validated += 1;
                    *res.outcome_counter(if obs.is_ok() { "batch-accept" } else { "batch-reject" }) += 1;
                    if obs.panic.is_some() || obs.is_ok() != (*oka && *okb) {
                        res.violate(
                            format!("[{},{}]/{}", kinds[a].0, kinds[b].0, mode_name(mode)),
                            format!("batch [{}, {}] in {}: library says {} but the reference verdicts of the members are [{}, {}]", kinds[a].0, kinds[b].0, mode_name(mode), obs.describe(), oka, okb),
                        );
                    }
                    // the same two members with ONE transcript: a member nobody derived challenges for was not verified, so
                    // the call must not report success when that member does not satisfy the relation
                    if !(*oka && *okb) {
                        let mut ts1 = vec![CTX_A.transcript()];
                        let short = verify_observed(&sts, &proofs, &mut ts1, mode);
                        res.executions += 1;
                        *res.outcome_counter(if short.is_ok() { "batch-accept" } else { "batch-reject" }) += 1;
                        if short.is_ok() {
                            res.violate(
                                format!("[{},{}]/{}/one-transcript", kinds[a].0, kinds[b].0, mode_name(mode)),
                                format!("batch [{}, {}] submitted with a single transcript was accepted although the reference verdicts of the members are [{}, {}]", kinds[a].0, kinds[b].0, oka, okb),
                            );
                        }
                    }
                }
            }
        }
        res
    })
}

/// Shape (i): a statement one of whose commitments is the identity element (value 0 under the zero mask), proved by the
/// REFERENCE prover: the relation holds, so the library verifier accepts (alone; the library prover's view is C01 / C06's)
fn shape_identity_commitment<P: G>(cfg: Cfg) -> Box<dyn Case> {
    case(format!("{}/{}/identity-commitment(reference prover)", P::NAME, cfg.key()), move |_v| {
        fg::clear_intern();
        let mut res = CaseResult::new("explored");
        if cfg.rounds() == 0 {
            return res;
        }
        let mut wit = Wit::default_for(&cfg);
        let j = cfg.m - 1;
        wit.values[j] = 0;
        wit.promises[j] = None;
        wit.blindings[j] = vec![Scalar::ZERO; cfg.d];
        let params = params_cached::<P>(&cfg);
        // commitments computed by hand (v*H + sum r_k*G_k), the statement through the validating constructor
        let pc = params.pc_gens().clone();
        let commitments: Vec<P> = wit
            .values
            .iter()
            .zip(wit.blindings.iter())
            .map(|(v, r)| {
                let mut acc = pc.h_base.g_mul(&Scalar::from(*v));
                for (k, x) in r.iter().enumerate() {
                    acc = acc.g_add(&pc.g_base_vec[k].g_mul(x));
                }
                acc
            })
            .collect();
        let st = match catch(|| P::statement(params.clone(), commitments, wit.promises.clone(), None)) {
            Ok(Ok(s)) => s,
            _ => {
                res.outcome = "statement-refused(skipped)".into();
                return res;
            },
        };
        let rst = ref_statement(&st);
        let nonces = Nonces {
            alpha: (0..cfg.d).map(|k| wide_scalar("ia", k as u64, 0)).collect(),
            dl: (0..cfg.rounds()).map(|r| (0..cfg.d).map(|k| wide_scalar("il", r as u64, k as u64)).collect()).collect(),
            dr: (0..cfg.rounds()).map(|r| (0..cfg.d).map(|k| wide_scalar("ir", r as u64, k as u64)).collect()).collect(),
            delta: (0..cfg.d).map(|k| wide_scalar("id", k as u64, 0)).collect(),
            eta: (0..cfg.d).map(|k| wide_scalar("ie", k as u64, 0)).collect(),
            r: wide_scalar("ir1", 0, 0),
            s: wide_scalar("is1", 0, 0),
        };
        let digits = match refbp::honest_digits(cfg.n, &wit.values, &wit.promises) {
            Some(d) => d,
            None => return res,
        };
        let mut t = CTX_A.transcript();
        let out = refbp::ref_prove(&mut t, &rst, &digits, &wit.blindings, &nonces);
        let mut t = CTX_A.transcript();
        if !refbp::ref_verify(&mut t, &rst, &out.proof).verdict.accepts() {
            res.machinery_error("the reference verifier rejects the reference prover's proof");
            return res;
        }
        let proof = match P::from_bytes(&refbp::ref_encode(&out.proof)) {
            Ok(p) => p,
            Err(_) => {
                *res.outcome_counter("lib-decode-refused") += 1;
                return res;
            },
        };
        for mode in [VerifyAction::VerifyOnly, VerifyAction::RecoverAndVerify] {
            let obs = verify_observed_one(&st, &proof, &CTX_A, mode);
            res.executions += 1;
            res.validated += 1;
            res.transitions += 1;
            *res.outcome_counter(if obs.is_ok() { "lib-accept" } else { "lib-reject" }) += 1;
            if !obs.is_ok() {
                res.violate(
                    mode_name(mode),
                    format!("a proof that satisfies the relation for a statement with an identity commitment (position {}) is not accepted: {}", j, obs.describe()),
                );
            }
        }
        res
    })
}

/// Shape (g), over F: the adaptive attacker of C08 (three runs, otherwise valid members): no invalid batch may verify
fn shape_adaptive_f(d: usize) -> Box<dyn Case> {
    use crate::props::c08;
    case(format!("freemodule/d={}/adaptive-cancellation", d), move |_v| {
        fg::clear_intern();
        let mut res = CaseResult::new("explored");
        let batch: Vec<c08::Member> = (0..2).map(|p| c08::plain_member(p, 1, d)).collect();
        for mode in [VerifyAction::VerifyOnly, VerifyAction::RecoverAndVerify] {
            for (i, j) in [(0usize, 1usize), (1, 0)] {
                for k in 0..d {
                    res.transitions += 1;
                    res.executions += 3;
                    res.validated += 1;
                    match c08::three_run_attack(&batch, i, j, k, mode, false) {
                        Err(e) => res.violate(format!("{}/pair=({},{})/k={}/setup", mode_name(mode), i, j, k), e),
                        Ok((accepted, _)) => {
                            *res.outcome_counter(if accepted { "adaptive-accept" } else { "adaptive-reject" }) += 1;
                            if accepted {
                                res.violate(
                                    format!("{}/pair=({},{})/k={}", mode_name(mode), i, j, k),
                                    "two individually invalid proofs, with defects sized from factors observed on earlier runs, were accepted together",
                                );
                            }
                        },
                    }
                }
            }
        }
        res
    })
}

/// Shape (h): a false member anywhere in a batch beyond the chunk limit. Every member but one is an honest proof; the odd one
/// has one response scalar off by one (invalid by the reference relation). Wherever it sits, the batch is refused.
fn shape_long_batch<P: G>(len: usize) -> Box<dyn Case> {
    case(format!("{}/long-batch/len={}/one-false-member", P::NAME, len), move |_v| {
        fg::clear_intern();
        let mut res = CaseResult::new("explored");
        let cfg = Cfg::new(2, 1, 1, 1);
        let mut sts = Vec::new();
        let mut proofs = Vec::new();
        let mut ctxs = Vec::new();
        for pos in 0..len {
            let mut wit = Wit::default_for(&cfg);
            wit.values[0] = (pos % 4) as u64;
            wit.blindings[0][0] = blinding(9000 + pos, 0);
            let built = build_cached::<P>(&cfg, &wit).honest();
            let ctx = contexts()[pos % 6];
            proofs.push(lib_prove_honest(&built, &ctx, &mut HRng::chacha(pos as u64)));
            sts.push(built.statement.clone());
            ctxs.push(ctx);
        }
        let run = |proofs: &[tari_bulletproofs_plus::range_proof::RangeProof<P>], mode| {
            let mut ts: Vec<merlin::Transcript> = ctxs.iter().map(|c| c.transcript()).collect();
            verify_observed(&sts, proofs, &mut ts, mode)
        };
        if !run(&proofs, VerifyAction::VerifyOnly).is_ok() {
            res.outcome = "all-honest-batch-not-accepted(skipped)".into();
            return res;
        }
        let mut places = vec![0usize, 100, 255, 256, len - 1];
        places.retain(|p| *p < len);
        places.dedup();
        for at in places {
            let mut rp = match ref_proof_of(&proofs[at]) {
                Some(rp) => rp,
                None => continue,
            };
            rp.r1 += Scalar::ONE;
            let rs = ref_statement(&sts[at]);
            let mut t = ctxs[at].transcript();
            let verdict = refbp::ref_verify(&mut t, &rs, &rp).verdict;
            if !matches!(verdict, RefVerdict::Reject) {
                res.binding_note(format!("at={}", at), "the reference relation does not reject r1+1");
                continue;
            }
            let bad = match P::from_bytes(&refbp::ref_encode(&rp)) {
                Ok(p) => p,
                Err(_) => continue,
            };
            let mut ps: Vec<_> = proofs.iter().map(|p| P::proof_clone(p)).collect();
            ps[at] = bad;
            for mode in [VerifyAction::VerifyOnly, VerifyAction::RecoverAndVerify] {
                res.transitions += 1;
                res.executions += 1;
                res.validated += 1;
                let obs = run(&ps, mode);
                *res.outcome_counter(if obs.is_ok() { "lib-accept" } else { "lib-reject" }) += 1;
                if obs.is_ok() {
                    res.violate(
                        format!("false-member-at-{}/{}", at, mode_name(mode)),
                        format!("a batch of {} whose member {} does not satisfy the relation (r1+1) was accepted: {}", len, at, obs.describe()),
                    );
                }
            }
        }
        res
    })
}

pub fn run(rep: &mut Report) {
    rep.rule = "configuration lattice x proof shapes {honest, every single mutation of the wire form, generic (symbolic) proofs x \
                response-scalar alphabet x promise alphabet, dishonest-witness proofs from the reference prover (v-p in {-1,2^n,2^n+1}, \
                one non-bit digit at each position), wrong round counts / degrees, batches of 257 / 513 with one false member at 0, 100, 255, 256 and last, 2-member batches over {honest, d1[k]+/-delta (cancel under equal weights), r1+1, re-encoded under degree+/-1, an honest member of another aggregation size}^2 (also submitted with a single transcript), a reference-prover proof for a statement holding an identity commitment} x environment deviations {zero challenge at each \
                draw, identity at each commitment generator}; oracle = verdict equality with the reference relation and (over F) \
                equality of the compared element with weight x reference linear form as a coefficient vector"
        .into();
    rep.assume("coefficient identities are compared at the challenge point the transcript yields per case (Schwartz-Zippel: agreeing there while differing as polynomials has probability < 2^-230 per case)");
    rep.assume("reference model R written from the paper / RFC-0181; bound to the code by C01's prover binding and by the recorded 0.4.0 vectors of C19");
    let tier = rep.tier;
    let lat = lattice(tier.thorough());
    let mut cases: Vec<Box<dyn Case>> = Vec::new();
    for cfg in &lat {
        cases.extend(shape_honest_and_mutants::<F>(*cfg, tier));
        cases.push(shape_coefficients_f(*cfg));
        cases.push(shape_generic_f(*cfg));
        cases.push(shape_dishonest::<F>(*cfg));
        cases.push(shape_wrong_shape::<F>(*cfg));
        cases.push(env_deviations::<F>(*cfg));
        cases.push(shape_batches::<F>(*cfg));
        if cfg.big_n() <= 256 {
            cases.push(shape_identity_commitment::<F>(*cfg));
        }
    }
    // Ristretto: verdict comparison on the quick lattice in both tiers (R's verifier is unoptimised)
    for cfg in lattice_quick() {
        cases.extend(shape_honest_and_mutants::<RistrettoPoint>(cfg, tier));
        if cfg.big_n() <= 64 {
            cases.push(shape_dishonest::<RistrettoPoint>(cfg));
        }
        cases.push(shape_wrong_shape::<RistrettoPoint>(cfg));
        cases.push(env_deviations::<RistrettoPoint>(cfg));
        if cfg.big_n() <= 64 {
            cases.push(shape_batches::<RistrettoPoint>(cfg));
            cases.push(shape_identity_commitment::<RistrettoPoint>(cfg));
        }
    }
    for d in [1usize, 2, 6] {
        cases.push(shape_adaptive_f(d));
    }
    for len in if tier.thorough() { vec![257usize, 513, 600] } else { vec![257usize, 513] } {
        cases.push(shape_long_batch::<F>(len));
        cases.push(shape_long_batch::<RistrettoPoint>(len));
    }
    rep.explore("C02", cases);
    rep.expect_sub_outcome("lib-accept");
    rep.expect_sub_outcome("lib-reject");
    rep.expect_sub_outcome("coefficient-identity-checked");
}
