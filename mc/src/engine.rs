//! Explorer core: parallel exhaustive case execution, canonical keys / dedup, outcome histogram, known findings,
//! replay files, evidence files, verdict protocol (DESIGN.md 2.5, 2.9).

use std::{
    collections::{BTreeMap, BTreeSet},
    fs,
    path::PathBuf,
    sync::{
        atomic::{AtomicUsize, Ordering},
        Mutex,
    },
    time::Instant,
};

use serde_json::{json, Value};

/// Where evidence, replays and the known-findings file live (overridable so that experiments on a scratch copy of the
/// repository do not touch the registered evidence)
static EXCLUSIVE: std::sync::atomic::AtomicBool = std::sync::atomic::AtomicBool::new(false);

/// True while a case is being rerun alone (no other case, no second exploration worker, runs in this process)
pub fn exclusive() -> bool {
    EXCLUSIVE.load(Ordering::SeqCst)
}

/// Name of the build profile this binary was asked to report as (set by run.sh for the second pass); None = the primary
/// build (optimised, debug assertions and overflow checks ON)
pub fn profile_pass() -> Option<String> {
    std::env::var("BPPMC_PROFILE").ok().filter(|s| !s.is_empty())
}

pub fn verif_dir() -> String {
    std::env::var("BPPMC_VERIF_DIR").unwrap_or_else(|_| "/verif".to_string())
}

/// The repository whose sources the C18 source scan reads
pub fn repo_dir() -> String {
    std::env::var("BPPMC_REPO_DIR").unwrap_or_else(|_| "/repo".to_string())
}

#[derive(Clone, Copy, Debug, PartialEq, Eq)]
pub enum Tier {
    Quick,
    Thorough,
}

impl Tier {
    pub fn thorough(&self) -> bool {
        *self == Tier::Thorough
    }

    pub fn name(&self) -> &'static str {
        match self {
            Tier::Quick => "quick",
            Tier::Thorough => "thorough",
        }
    }
}

/// What one explored case reports back
#[derive(Clone, Debug, Default)]
pub struct CaseResult {
    /// outcome class for the histogram (e.g. "accept", "Err:VerificationFailed")
    pub outcome: String,
    /// number of real library calls made (executions)
    pub executions: u64,
    /// number of refinement steps from the parent case (deviations applied / ops in the history / schedule length)
    pub transitions: u64,
    /// number of times a reference-model answer was compared with the implementation's on this case
    pub validated: u64,
    /// violations found on this case: (sub-key, description)
    pub violations: Vec<(String, String)>,
    /// machinery errors (never a verdict)
    pub machinery: Vec<String>,
    /// the case asks to be run again with nothing else running in this process (its result looked dependent on what other
    /// cases were doing at the same time: process-wide state in the subject)
    pub retry_exclusive: bool,
    /// extra states visited inside the case (e.g. schedules, sub-cases) beyond the case itself
    pub extra_states: u64,
    pub sample: Option<Value>,
    /// fine-grained outcome counters inside the case (e.g. verdict classes of sub-cases)
    pub counters: BTreeMap<String, u64>,
    /// disagreements between the implementation and the reference model that do NOT bear on the property being
    /// checked (they belong to another property, e.g. wire compatibility); reported as notes, never as a verdict
    pub binding: Vec<(String, String)>,
}

impl CaseResult {
    pub fn new(outcome: impl Into<String>) -> CaseResult {
        CaseResult {
            retry_exclusive: false,
            outcome: outcome.into(),
            ..Default::default()
        }
    }

    pub fn violate(&mut self, sub: impl Into<String>, what: impl Into<String>) {
        self.violations.push((sub.into(), what.into()));
    }

    pub fn machinery_error(&mut self, what: impl Into<String>) {
        self.machinery.push(what.into());
    }

    pub fn binding_note(&mut self, sub: impl Into<String>, what: impl Into<String>) {
        self.binding.push((sub.into(), what.into()));
    }

    pub fn outcome_counter(&mut self, name: &str) -> &mut u64 {
        self.counters.entry(name.to_string()).or_insert(0)
    }
}

pub trait Case: Send + Sync {
    /// canonical serialisation of every choice of the case (dedup key and replay handle)
    fn key(&self) -> String;
    fn run(&self, verbose: bool) -> CaseResult;
}

pub struct FnCase<F: Fn(bool) -> CaseResult + Send + Sync> {
    pub key: String,
    pub f: F,
}

impl<F: Fn(bool) -> CaseResult + Send + Sync> Case for FnCase<F> {
    fn key(&self) -> String {
        self.key.clone()
    }

    fn run(&self, verbose: bool) -> CaseResult {
        (self.f)(verbose)
    }
}

/// Child side of `explore_in_children`: run the shard's cases sequentially, announcing each one
pub fn run_child_shard(cases: Vec<Box<dyn Case>>, shard: usize, shards: usize, filter: Option<String>, family: &str) {
    use std::io::Write;
    let out = std::io::stdout();
    for (i, c) in cases.iter().enumerate() {
        if i % shards != shard {
            continue;
        }
        if let Some(f) = &filter {
            let full = format!("{}/{}", family, c.key());
            if !(full == *f || f.starts_with(&format!("{}#", full))) {
                continue;
            }
        }
        {
            let mut o = out.lock();
            let _ = writeln!(o, "START {}", c.key());
            let _ = o.flush();
        }
        let r = match std::panic::catch_unwind(std::panic::AssertUnwindSafe(|| c.run(filter.is_some()))) {
            Ok(r) => r,
            Err(e) if e.downcast_ref::<crate::common::HonestPrecondition>().is_some() => CaseResult::new("honest-precondition-failed(skipped)"),
            Err(_) => {
                let mut r = CaseResult::new("HARNESS-PANIC");
                r.machinery_error(format!("harness panicked outside the subject on case {}", c.key()));
                r
            },
        };
        let v = json!({
            "key": c.key(),
            "outcome": r.outcome,
            "executions": r.executions,
            "transitions": r.transitions,
            "validated": r.validated,
            "extra_states": r.extra_states,
            "violations": r.violations.iter().map(|(a, b)| json!([a, b])).collect::<Vec<_>>(),
            "machinery": r.machinery,
            "binding": r.binding.iter().map(|(a, b)| json!([a, b])).collect::<Vec<_>>(),
            "counters": r.counters,
            "sample": r.sample,
        });
        let mut o = out.lock();
        let _ = writeln!(o, "END {}", serde_json::to_string(&v).unwrap());
        let _ = o.flush();
    }
}

pub fn case<F: Fn(bool) -> CaseResult + Send + Sync + 'static>(key: impl Into<String>, f: F) -> Box<dyn Case> {
    Box::new(FnCase { key: key.into(), f })
}

#[derive(Clone, Debug)]
pub struct KnownFinding {
    pub property: String,
    pub key: String,
    pub status: String,
    pub what: String,
}

pub fn load_known_findings() -> Vec<KnownFinding> {
    let path = format!("{}/known_findings.json", verif_dir());
    let text = match fs::read_to_string(&path) {
        Ok(t) => t,
        Err(_) => return Vec::new(),
    };
    let v: Value = serde_json::from_str(&text).expect("known_findings.json parses");
    v["findings"]
        .as_array()
        .cloned()
        .unwrap_or_default()
        .iter()
        .map(|f| KnownFinding {
            property: f["property"].as_str().unwrap_or("").to_string(),
            key: f["key"].as_str().unwrap_or("").to_string(),
            status: f["status"].as_str().unwrap_or("").to_string(),
            what: f["what"].as_str().unwrap_or("").to_string(),
        })
        .collect()
}

pub struct Report {
    pub id: String,
    pub tier: Tier,
    pub level: String,
    pub seed: i64,
    pub rule: String,
    pub exhaustive: bool,
    pub assumptions: Vec<String>,
    pub notes: BTreeMap<String, Value>,
    pub states: BTreeSet<u64>,
    pub extra_states: u64,
    /// distinct cases that actually exercised the subject (not skipped / not-applicable, at least one execution)
    pub nontrivial: u64,
    pub transitions: u64,
    pub executions: u64,
    pub validated: u64,
    pub outcomes: BTreeMap<String, u64>,
    pub samples: Vec<Value>,
    pub violations: Vec<(String, String)>,
    pub known_hits: BTreeMap<String, (String, u64)>,
    pub machinery: Vec<String>,
    pub binding: Vec<(String, String)>,
    pub expect_outcomes: Vec<String>,
    pub sub_outcomes: BTreeMap<String, u64>,
    pub expect_sub: Vec<String>,
    pub start: Instant,
    pub replay_filter: Option<String>,
}

/// `*` matches any run of characters; everything else is literal; the pattern must match the whole key
pub fn glob_match(pattern: &str, text: &str) -> bool {
    let parts: Vec<&str> = pattern.split('*').collect();
    if parts.len() == 1 {
        return pattern == text;
    }
    let mut pos = 0usize;
    for (i, part) in parts.iter().enumerate() {
        if i == 0 {
            if !text.starts_with(part) {
                return false;
            }
            pos = part.len();
        } else if i == parts.len() - 1 {
            return text.len() >= pos + part.len() && text[pos..].ends_with(part);
        } else {
            match text[pos..].find(part) {
                Some(j) => pos += j + part.len(),
                None => return false,
            }
        }
    }
    true
}

fn fnv(s: &str) -> u64 {
    let mut h: u64 = 0xcbf29ce484222325;
    for b in s.as_bytes() {
        h ^= *b as u64;
        h = h.wrapping_mul(0x100000001b3);
    }
    h
}

impl Report {
    pub fn new(id: &str, tier: Tier, level: &str) -> Report {
        Report {
            id: id.to_string(),
            tier,
            level: level.to_string(),
            seed: std::env::var("VERIF_SEED").ok().and_then(|s| s.parse().ok()).unwrap_or(0),
            rule: String::new(),
            exhaustive: true,
            assumptions: Vec::new(),
            notes: BTreeMap::new(),
            states: BTreeSet::new(),
            extra_states: 0,
            nontrivial: 0,
            transitions: 0,
            executions: 0,
            validated: 0,
            outcomes: BTreeMap::new(),
            samples: Vec::new(),
            violations: Vec::new(),
            known_hits: BTreeMap::new(),
            machinery: Vec::new(),
            binding: Vec::new(),
            expect_outcomes: Vec::new(),
            sub_outcomes: BTreeMap::new(),
            expect_sub: Vec::new(),
            start: Instant::now(),
            replay_filter: None,
        }
    }

    pub fn note(&mut self, k: &str, v: Value) {
        self.notes.insert(k.to_string(), v);
    }

    pub fn assume(&mut self, s: &str) {
        self.assumptions.push(s.to_string());
    }

    /// Outcome classes that must appear at least once, else the exploration is vacuous (machinery error)
    pub fn expect_outcome(&mut self, s: &str) {
        self.expect_outcomes.push(s.to_string());
    }

    /// Sub-outcome counters that must be non-zero, else the exploration is vacuous (machinery error)
    pub fn expect_sub_outcome(&mut self, s: &str) {
        self.expect_sub.push(s.to_string());
    }

    /// Explore a family of cases exhaustively, in parallel; results are reduced in key order
    pub fn explore(&mut self, family: &str, cases: Vec<Box<dyn Case>>) {
        let cases: Vec<Box<dyn Case>> = match &self.replay_filter {
            Some(f) => cases
                .into_iter()
                .filter(|c| format!("{}/{}", family, c.key()) == *f || f.starts_with(&format!("{}/{}#", family, c.key())))
                .collect(),
            None => cases,
        };
        let verbose = self.replay_filter.is_some();
        let n = cases.len();
        let next = AtomicUsize::new(0);
        let results: Mutex<Vec<Option<CaseResult>>> = Mutex::new((0..n).map(|_| None).collect());
        let workers = std::env::var("BPPMC_THREADS")
            .ok()
            .and_then(|s| s.parse().ok())
            .unwrap_or_else(|| std::thread::available_parallelism().map(|x| x.get()).unwrap_or(8))
            .min(n.max(1));
        std::thread::scope(|s| {
            for _ in 0..workers {
                s.spawn(|| loop {
                    let i = next.fetch_add(1, Ordering::SeqCst);
                    if i >= n {
                        break;
                    }
                    let c = &cases[i];
                    let r = match std::panic::catch_unwind(std::panic::AssertUnwindSafe(|| c.run(verbose))) {
                        Ok(mut r) => {
                            if !r.violations.is_empty() {
                                // a failure is only reported if it reproduces identically
                                let again = std::panic::catch_unwind(std::panic::AssertUnwindSafe(|| c.run(false)));
                                match again {
                                    Ok(r2) if r2.violations == r.violations => {},
                                    _ => {
                                        // the subject answered differently on an immediate rerun of the same case: the
                                        // violation was observed on the real code and stays, annotated
                                        for v in r.violations.iter_mut() {
                                            v.1.push_str(" [not reproduced identically on an immediate rerun of the case: the result depends on process state left by other calls, or on timing]");
                                        }
                                    },
                                }
                            }
                            r
                        },
                        Err(e) if e.downcast_ref::<crate::common::HonestPrecondition>().is_some() => {
                            // an honest operation this case builds on failed: another property's finding
                            CaseResult::new("honest-precondition-failed(skipped)")
                        },
                        Err(e) => {
                            let msg = e
                                .downcast_ref::<String>()
                                .cloned()
                                .or_else(|| e.downcast_ref::<&str>().map(|s| s.to_string()))
                                .unwrap_or_else(|| "panic".into());
                            let mut r = CaseResult::new("HARNESS-PANIC");
                            r.machinery_error(format!("harness panicked outside the subject on case {}: {}", c.key(), msg));
                            r
                        },
                    };
                    results.lock().unwrap()[i] = Some(r);
                });
            }
        });
        let mut results = results.into_inner().unwrap();
        // cases whose result looked dependent on concurrently running cases are rerun one at a time, nothing else running
        let retry: Vec<usize> = (0..n).filter(|i| results[*i].as_ref().map(|r| r.retry_exclusive).unwrap_or(false)).collect();
        if !retry.is_empty() {
            EXCLUSIVE.store(true, Ordering::SeqCst);
            for i in retry {
                let c = &cases[i];
                let r = match std::panic::catch_unwind(std::panic::AssertUnwindSafe(|| c.run(verbose))) {
                    Ok(mut r) => {
                        *r.outcome_counter("rerun-alone(result depended on concurrently running cases)") += 1;
                        r
                    },
                    Err(e) if e.downcast_ref::<crate::common::HonestPrecondition>().is_some() => CaseResult::new("honest-precondition-failed(skipped)"),
                    Err(_) => {
                        let mut r = CaseResult::new("HARNESS-PANIC");
                        r.machinery_error(format!("harness panicked outside the subject on case {} (exclusive rerun)", c.key()));
                        r
                    },
                };
                results[i] = Some(r);
            }
            EXCLUSIVE.store(false, Ordering::SeqCst);
        }
        let mut order: Vec<usize> = (0..n).collect();
        let keys: Vec<String> = cases.iter().map(|c| format!("{}/{}", family, c.key())).collect();
        order.sort_by(|a, b| keys[*a].cmp(&keys[*b]));
        let known = load_known_findings();
        for i in order {
            let key = &keys[i];
            let r = results[i].clone().expect("case ran");
            if !self.states.insert(fnv(key)) {
                self.machinery.push(format!("duplicate case key {}", key));
            }
            self.extra_states += r.extra_states;
            if r.executions > 0 && !r.outcome.contains("skipped") && !r.outcome.contains("not-applicable") {
                self.nontrivial += 1;
            }
            self.transitions += r.transitions.max(1);
            self.executions += r.executions;
            self.validated += r.validated;
            *self.outcomes.entry(r.outcome.clone()).or_insert(0) += 1;
            for (k, v) in &r.counters {
                *self.sub_outcomes.entry(k.clone()).or_insert(0) += v;
            }
            if let Some(s) = r.sample {
                if self.samples.len() < 6 || (self.samples.len() < 12 && i % 97 == 0) {
                    self.samples.push(json!({"case": key, "outcome": r.outcome, "detail": s}));
                }
            } else if self.samples.len() < 4 {
                self.samples.push(json!({"case": key, "outcome": r.outcome}));
            }
            for m in r.machinery {
                self.machinery.push(m);
            }
            for (sub, what) in r.binding {
                self.binding.push((format!("{}#{}", key, sub), what));
            }
            for (sub, what) in r.violations {
                let full = if sub.is_empty() { key.clone() } else { format!("{}#{}", key, sub) };
                if let Some(k) = known
                    .iter()
                    .find(|k| k.property == self.id && k.status == "known" && glob_match(&k.key, &full))
                {
                    let e = self.known_hits.entry(k.key.clone()).or_insert((k.what.clone(), 0));
                    e.1 += 1;
                } else {
                    self.violations.push((full, what));
                }
            }
        }
    }

    /// Explore a family of cases in isolated child processes (hostile-input sweeps: an abort or runaway allocation in
    /// the subject must not take the explorer down). The child rebuilds the same deterministic case list from
    /// `builder` and runs the shard it is given; every case is announced before it starts, so a child that dies names
    /// the culprit.
    pub fn explore_in_children(&mut self, family: &str, builder: &str, n_cases: usize, keys: Vec<String>) {
        let shards = std::thread::available_parallelism().map(|x| x.get()).unwrap_or(8).min(n_cases.max(1));
        let exe = std::env::current_exe().expect("own path");
        let tier = self.tier.name().to_string();
        let filter = self.replay_filter.clone();
        let outputs: Vec<(usize, std::io::Result<std::process::Output>)> = std::thread::scope(|s| {
            let hs: Vec<_> = (0..shards)
                .map(|i| {
                    let exe = exe.clone();
                    let tier = tier.clone();
                    let builder = builder.to_string();
                    let filter = filter.clone();
                    s.spawn(move || {
                        let cmd = format!(
                            "ulimit -v 12582912 2>/dev/null; exec '{}' child cases {} {} {} {} {}",
                            exe.display(),
                            builder,
                            tier,
                            i,
                            shards,
                            filter.map(|f| format!("'{}'", f.replace('\'', ""))).unwrap_or_default()
                        );
                        (i, std::process::Command::new("sh").arg("-c").arg(cmd).stdin(std::process::Stdio::null()).stderr(std::process::Stdio::null()).output())
                    })
                })
                .collect();
            hs.into_iter().map(|h| h.join().unwrap()).collect()
        });
        let known = load_known_findings();
        let mut seen_keys: BTreeSet<String> = BTreeSet::new();
        for (shard, out) in outputs {
            let out = match out {
                Ok(o) => o,
                Err(e) => {
                    self.machinery.push(format!("child shard {} could not be started: {}", shard, e));
                    continue;
                },
            };
            let text = String::from_utf8_lossy(&out.stdout).to_string();
            let mut started: Option<String> = None;
            for line in text.lines() {
                if let Some(k) = line.strip_prefix("START ") {
                    started = Some(k.to_string());
                } else if let Some(rest) = line.strip_prefix("END ") {
                    started = None;
                    let v: Value = match serde_json::from_str(rest) {
                        Ok(v) => v,
                        Err(_) => {
                            self.machinery.push(format!("child shard {}: unparsable result line", shard));
                            continue;
                        },
                    };
                    let key = format!("{}/{}", family, v["key"].as_str().unwrap_or(""));
                    seen_keys.insert(key.clone());
                    if !self.states.insert(fnv(&key)) {
                        self.machinery.push(format!("duplicate case key {}", key));
                    }
                    self.extra_states += v["extra_states"].as_u64().unwrap_or(0);
                    if v["executions"].as_u64().unwrap_or(0) > 0 && !v["outcome"].as_str().unwrap_or("").contains("skipped") {
                        self.nontrivial += 1;
                    }
                    self.transitions += v["transitions"].as_u64().unwrap_or(0).max(1);
                    self.executions += v["executions"].as_u64().unwrap_or(0);
                    self.validated += v["validated"].as_u64().unwrap_or(0);
                    *self.outcomes.entry(v["outcome"].as_str().unwrap_or("?").to_string()).or_insert(0) += 1;
                    if let Some(c) = v["counters"].as_object() {
                        for (k, n) in c {
                            *self.sub_outcomes.entry(k.clone()).or_insert(0) += n.as_u64().unwrap_or(0);
                        }
                    }
                    if self.samples.len() < 8 && !v["sample"].is_null() {
                        self.samples.push(json!({"case": key, "outcome": v["outcome"], "detail": v["sample"]}));
                    }
                    for m in v["machinery"].as_array().cloned().unwrap_or_default() {
                        self.machinery.push(m.as_str().unwrap_or("").to_string());
                    }
                    for b in v["binding"].as_array().cloned().unwrap_or_default() {
                        self.binding.push((format!("{}#{}", key, b[0].as_str().unwrap_or("")), b[1].as_str().unwrap_or("").to_string()));
                    }
                    for viol in v["violations"].as_array().cloned().unwrap_or_default() {
                        let sub = viol[0].as_str().unwrap_or("");
                        let what = viol[1].as_str().unwrap_or("").to_string();
                        let full = if sub.is_empty() { key.clone() } else { format!("{}#{}", key, sub) };
                        if let Some(k) = known.iter().find(|k| k.property == self.id && k.status == "known" && glob_match(&k.key, &full)) {
                            let e = self.known_hits.entry(k.key.clone()).or_insert((k.what.clone(), 0));
                            e.1 += 1;
                        } else {
                            self.violations.push((full, what));
                        }
                    }
                }
            }
            if let Some(k) = started {
                // the child died while running this case: abort, stack overflow, runaway allocation, ...
                let key = format!("{}/{}", family, k);
                seen_keys.insert(key.clone());
                self.states.insert(fnv(&key));
                *self.outcomes.entry("CHILD-DIED".to_string()).or_insert(0) += 1;
                self.violations.push((key, format!("the process died while running this case (status {:?}): abort / unbounded allocation / stack overflow", out.status)));
            } else if !out.status.success() {
                self.machinery.push(format!("child shard {} exited with {:?} outside any case", shard, out.status));
            }
        }
        if self.replay_filter.is_none() {
            for k in keys {
                let full = format!("{}/{}", family, k);
                if !seen_keys.contains(&full) {
                    self.machinery.push(format!("case {} was never reported by a child (a later case in its shard was not reached)", full));
                    break;
                }
            }
        }
    }

    pub fn wall(&self) -> f64 {
        self.start.elapsed().as_secs_f64()
    }

    /// Write evidence, print verdict lines, return the process exit code
    pub fn finish(mut self) -> i32 {
        for e in self.expect_outcomes.clone() {
            if self.replay_filter.is_none() && !self.outcomes.keys().any(|k| k.contains(&e)) {
                self.machinery.push(format!(
                    "vacuous exploration: expected outcome class '{}' never observed (classes: {:?})",
                    e,
                    self.outcomes.keys().collect::<Vec<_>>()
                ));
            }
        }
        for e in self.expect_sub.clone() {
            if self.replay_filter.is_none() && self.sub_outcomes.get(&e).copied().unwrap_or(0) == 0 {
                self.machinery.push(format!("vacuous exploration: sub-outcome '{}' never observed", e));
            }
        }
        let states = self.states.len() as u64 + self.extra_states;
        println!(
            "[{}] tier={} states={} transitions={} executions={} validated_against_impl={} distinct_outcomes={} wall={:.1}s",
            self.id,
            self.tier.name(),
            states,
            self.transitions,
            self.executions,
            self.validated,
            self.outcomes.len(),
            self.wall()
        );
        for (k, v) in &self.outcomes {
            println!("[{}]   outcome {:>8} x {}", self.id, v, k);
        }
        for (k, v) in &self.sub_outcomes {
            println!("[{}]   sub-outcome {:>8} x {}", self.id, v, k);
        }
        for (k, (what, count)) in &self.known_hits {
            println!("KNOWN-FINDING: property={} {} [key {} ; {} case(s)]", self.id, what, k, count);
        }
        let mut replay_paths = Vec::new();
        if !self.violations.is_empty() {
            let dir = PathBuf::from(verif_dir()).join("replays");
            let _ = fs::create_dir_all(&dir);
            for (key, what) in self.violations.iter().take(25) {
                let path = match profile_pass() {
                    Some(p) => dir.join(format!("{}-{}-{:016x}.json", self.id, p, fnv(key))),
                    None => dir.join(format!("{}-{:016x}.json", self.id, fnv(key))),
                };
                let body = json!({
                    "property": self.id,
                    "tier": self.tier.name(),
                    "case": key,
                    "what": what,
                    "build_profile": profile_pass().unwrap_or_else(|| "primary (debug assertions and overflow checks on)".into()),
                    "replay_cmd": format!("/verif/run.sh replay {}", path.display()),
                });
                let _ = fs::write(&path, serde_json::to_string_pretty(&body).unwrap());
                println!("VIOLATION property={} replay={}", self.id, path.display());
                println!("[{}]   case {} : {}", self.id, key, what);
                replay_paths.push(path.display().to_string());
            }
            if self.violations.len() > 25 {
                println!("[{}]   ... and {} more violating cases", self.id, self.violations.len() - 25);
            }
        }
        for m in &self.machinery {
            println!("MACHINERY-ERROR property={} {}", self.id, m);
        }
        if !self.binding.is_empty() {
            println!(
                "[{}] note: {} case(s) where the implementation and the reference model disagree on something this property does not state (another property's business; not a verdict here), e.g.:",
                self.id,
                self.binding.len()
            );
            for (k, w) in self.binding.iter().take(3) {
                println!("[{}]   reference-binding note {} : {}", self.id, k, w);
            }
        }
        if self.replay_filter.is_none() {
            let mut coverage = json!({
                "states": states.max(1),
                "transitions": self.transitions.max(1),
                "traces_validated_against_impl": self.validated,
                "evaluations": self.executions.max(1),
                "distinct_nontrivial": self.nontrivial,
                "distinct_nontrivial_rule": "distinct case keys (every choice of the case is in the key) whose run made at least one call into the library and was neither skipped nor not-applicable; schedule explorations add one per distinct schedule",
                "distinct_outcomes": self.outcomes.len() + self.sub_outcomes.len(),
                "outcome_histogram": self.outcomes,
                "sub_outcome_histogram": self.sub_outcomes,
                "rule": self.rule,
                "exhaustive": self.exhaustive && self.machinery.is_empty(),
                "samples": if self.samples.is_empty() { vec![json!("none")] } else { self.samples.clone() },
                "known_findings_hit": self.known_hits.iter().map(|(k, (w, c))| json!({"key": k, "what": w, "cases": c})).collect::<Vec<_>>(),
                "violation_replays": replay_paths,
                "machinery_errors": self.machinery,
                "reference_binding_notes": self.binding.len(),
                "reference_binding_note_samples": self.binding.iter().take(5).map(|(k, w)| json!({"case": k, "what": w})).collect::<Vec<_>>(),
            });
            for (k, v) in &self.notes {
                coverage[k] = v.clone();
            }
            coverage["build_profile"] = json!(match profile_pass() {
                Some(p) => format!("{}: optimised, debug assertions and overflow checks OFF (what `cargo build --release` gives users of the library)", p),
                None => "primary: optimised, debug assertions and overflow checks ON".to_string(),
            });
            let ev = json!({
                "property_id": self.id,
                "tier": self.tier.name(),
                "seed": self.seed,
                "level": self.level,
                "coverage": coverage,
                "assumptions": self.assumptions,
                "wall_s": self.wall(),
                "violations": self.violations.len(),
            });
            let dir = PathBuf::from(verif_dir()).join("evidence");
            let _ = fs::create_dir_all(&dir);
            let file = match profile_pass() {
                Some(p) => format!("{}.{}.json", self.id, p),
                None => format!("{}.json", self.id),
            };
            fs::write(dir.join(file), serde_json::to_string_pretty(&ev).unwrap()).expect("write evidence");
        }
        // a violation observed on the real code is reported as such even if some other case hit a machinery error
        if !self.violations.is_empty() {
            return 1;
        }
        if !self.machinery.is_empty() {
            return 2;
        }
        println!("[{}] OK: property held on everything explored", self.id);
        0
    }
}
