//! Global-allocator monitor (DESIGN.md 2.7)
//!
//! Forwards to `System`. While *armed on the current thread* it scans every block handed to `dealloc` -- and the old
//! block of every `realloc`, performed as alloc-copy-scan-free so a growing Vec cannot hide a stale copy -- for the
//! registered secret byte patterns. In *counting* mode it adds up the bytes requested on the current thread.
//! All state is thread-local, const-initialised and destructor-free, so it is safe to touch inside the allocator.

use std::{
    alloc::{GlobalAlloc, Layout, System},
    cell::{Cell, UnsafeCell},
};

pub const MAX_PATTERNS: usize = 96;
pub const MAX_HITS: usize = 32;

pub struct Mon {
    armed: Cell<bool>,
    /// fill every fresh block with a benign pattern, so that stale bytes of an earlier (harness) allocation can never
    /// show up in the unwritten part of a block the library frees later
    hygiene: Cell<bool>,
    counting: Cell<bool>,
    n_patterns: Cell<usize>,
    patterns: UnsafeCell<[[u8; 32]; MAX_PATTERNS]>,
    pattern_len: UnsafeCell<[u8; MAX_PATTERNS]>,
    frees_inspected: Cell<u64>,
    bytes_inspected: Cell<u64>,
    hits: Cell<usize>,
    hit_pattern: UnsafeCell<[u8; MAX_HITS]>,
    hit_size: UnsafeCell<[u32; MAX_HITS]>,
    bytes_requested: Cell<u64>,
    largest_request: Cell<u64>,
    /// allocation events of this thread are scheduling points of the controlled scheduler
    sched_points: Cell<bool>,
    in_hook: Cell<bool>,
    /// optional counter outside the thread (survives the thread): bumped on every hit and on every inspected free, so
    /// that frees performed while the thread shuts down (thread-local destructors) are still accounted for
    hit_sink: Cell<*const std::sync::atomic::AtomicU64>,
    free_sink: Cell<*const std::sync::atomic::AtomicU64>,
}

thread_local! {
    static MON: Mon = const { Mon {
        armed: Cell::new(false),
        hygiene: Cell::new(false),
        counting: Cell::new(false),
        n_patterns: Cell::new(0),
        patterns: UnsafeCell::new([[0u8; 32]; MAX_PATTERNS]),
        pattern_len: UnsafeCell::new([0u8; MAX_PATTERNS]),
        frees_inspected: Cell::new(0),
        bytes_inspected: Cell::new(0),
        hits: Cell::new(0),
        hit_pattern: UnsafeCell::new([0u8; MAX_HITS]),
        hit_size: UnsafeCell::new([0u32; MAX_HITS]),
        bytes_requested: Cell::new(0),
        largest_request: Cell::new(0),
        sched_points: Cell::new(false),
        in_hook: Cell::new(false),
        hit_sink: Cell::new(std::ptr::null()),
        free_sink: Cell::new(std::ptr::null()),
    } };
}

pub struct MonAlloc;

static ALLOC_HOOK: std::sync::OnceLock<fn()> = std::sync::OnceLock::new();

/// Install the function called on every allocation of a thread that switched allocation scheduling points on
pub fn set_alloc_hook(f: fn()) -> bool {
    ALLOC_HOOK.set(f).is_ok()
}

/// Make (or stop making) this thread's allocations scheduling points
pub fn set_sched_points(on: bool) {
    let _ = MON.try_with(|m| m.sched_points.set(on));
}

/// Run `f` with allocation scheduling points suppressed (scheduler internals allocate too)
pub fn without_sched_points<T>(f: impl FnOnce() -> T) -> T {
    let was = MON.try_with(|m| m.in_hook.replace(true)).unwrap_or(true);
    let r = f();
    let _ = MON.try_with(|m| m.in_hook.set(was));
    r
}

#[inline]
fn alloc_point() {
    let _ = MON.try_with(|m| {
        if m.sched_points.get() && !m.in_hook.get() {
            if let Some(h) = ALLOC_HOOK.get() {
                m.in_hook.set(true);
                h();
                m.in_hook.set(false);
            }
        }
    });
}

#[inline]
fn find(hay: &[u8], needle: &[u8]) -> bool {
    if needle.is_empty() || hay.len() < needle.len() {
        return false;
    }
    let first = needle[0];
    let last = hay.len() - needle.len();
    let mut i = 0;
    while i <= last {
        if hay[i] == first && &hay[i..i + needle.len()] == needle {
            return true;
        }
        i += 1;
    }
    false
}

unsafe fn scan(ptr: *mut u8, size: usize) {
    let _ = MON.try_with(|m| {
        if !m.armed.get() || size == 0 {
            return;
        }
        m.frees_inspected.set(m.frees_inspected.get() + 1);
        m.bytes_inspected.set(m.bytes_inspected.get() + size as u64);
        let fs = m.free_sink.get();
        if !fs.is_null() {
            (*fs).fetch_add(1, std::sync::atomic::Ordering::SeqCst);
        }
        let hay = std::slice::from_raw_parts(ptr as *const u8, size);
        let pats = &*m.patterns.get();
        let lens = &*m.pattern_len.get();
        for p in 0..m.n_patterns.get() {
            let l = lens[p] as usize;
            if find(hay, &pats[p][..l]) {
                let h = m.hits.get();
                if h < MAX_HITS {
                    let hp: &mut [u8; MAX_HITS] = &mut *m.hit_pattern.get();
                    let hs: &mut [u32; MAX_HITS] = &mut *m.hit_size.get();
                    hp[h] = p as u8;
                    hs[h] = size as u32;
                }
                m.hits.set(h + 1);
                let hs = m.hit_sink.get();
                if !hs.is_null() {
                    (*hs).fetch_add(1, std::sync::atomic::Ordering::SeqCst);
                }
            }
        }
    });
}

fn count(size: usize) {
    let _ = MON.try_with(|m| {
        if m.counting.get() {
            m.bytes_requested.set(m.bytes_requested.get() + size as u64);
            if size as u64 > m.largest_request.get() {
                m.largest_request.set(size as u64);
            }
        }
    });
}

unsafe impl GlobalAlloc for MonAlloc {
    unsafe fn alloc(&self, layout: Layout) -> *mut u8 {
        count(layout.size());
        let p = System.alloc(layout);
        if !p.is_null() && MON.try_with(|m| m.hygiene.get()).unwrap_or(false) {
            std::ptr::write_bytes(p, 0xCD, layout.size());
        }
        alloc_point();
        p
    }

    unsafe fn alloc_zeroed(&self, layout: Layout) -> *mut u8 {
        count(layout.size());
        System.alloc_zeroed(layout)
    }

    unsafe fn dealloc(&self, ptr: *mut u8, layout: Layout) {
        scan(ptr, layout.size());
        System.dealloc(ptr, layout)
    }

    unsafe fn realloc(&self, ptr: *mut u8, layout: Layout, new_size: usize) -> *mut u8 {
        let armed = MON.try_with(|m| m.armed.get() || m.hygiene.get()).unwrap_or(false);
        if !armed {
            count(new_size.saturating_sub(layout.size()));
            return System.realloc(ptr, layout, new_size);
        }
        // alloc-copy-scan-free: the old block is inspected exactly as the library left it
        count(new_size);
        let new_layout = Layout::from_size_align_unchecked(new_size, layout.align());
        let new_ptr = System.alloc(new_layout);
        if !new_ptr.is_null() {
            if new_size > layout.size() {
                std::ptr::write_bytes(new_ptr.add(layout.size()), 0xCD, new_size - layout.size());
            }
            std::ptr::copy_nonoverlapping(ptr, new_ptr, layout.size().min(new_size));
            scan(ptr, layout.size());
            System.dealloc(ptr, layout);
        }
        new_ptr
    }
}

#[derive(Clone, Debug, Default)]
pub struct ScanReport {
    pub frees_inspected: u64,
    pub bytes_inspected: u64,
    pub hits: usize,
    /// (pattern index, block size)
    pub hit_list: Vec<(usize, usize)>,
}

/// Register the secrets to look for on this thread (replaces the previous set)
pub fn set_patterns(pats: &[Vec<u8>]) {
    MON.with(|m| unsafe {
        let n = pats.len().min(MAX_PATTERNS);
        for (i, p) in pats.iter().take(n).enumerate() {
            let l = p.len().min(32);
            let pats: &mut [[u8; 32]; MAX_PATTERNS] = &mut *m.patterns.get();
            let lens: &mut [u8; MAX_PATTERNS] = &mut *m.pattern_len.get();
            pats[i] = [0u8; 32];
            pats[i][..l].copy_from_slice(&p[..l]);
            lens[i] = l as u8;
        }
        m.n_patterns.set(n);
    });
}

/// Switch allocation hygiene on/off for this thread (see `Mon::hygiene`)
pub fn hygiene(on: bool) {
    MON.with(|m| m.hygiene.set(on));
}

/// Route hit / inspected-free counts of this thread to counters that outlive it (the caller keeps them alive until the
/// thread has been joined)
pub fn set_sinks(hits: *const std::sync::atomic::AtomicU64, frees: *const std::sync::atomic::AtomicU64) {
    MON.with(|m| {
        m.hit_sink.set(hits);
        m.free_sink.set(frees);
    });
}

pub fn arm() {
    MON.with(|m| {
        m.frees_inspected.set(0);
        m.bytes_inspected.set(0);
        m.hits.set(0);
        m.armed.set(true);
    });
}

/// Temporarily stop inspecting (around harness-owned copies of the secrets)
pub fn pause() -> bool {
    MON.with(|m| m.armed.replace(false))
}

pub fn resume(was: bool) {
    MON.with(|m| m.armed.set(was));
}

pub fn disarm() -> ScanReport {
    MON.with(|m| {
        m.armed.set(false);
        let hits = m.hits.get();
        let mut list = Vec::new();
        unsafe {
            let hp: &[u8; MAX_HITS] = &*m.hit_pattern.get();
            let hs: &[u32; MAX_HITS] = &*m.hit_size.get();
            for h in 0..hits.min(MAX_HITS) {
                list.push((hp[h] as usize, hs[h] as usize));
            }
        }
        ScanReport {
            frees_inspected: m.frees_inspected.get(),
            bytes_inspected: m.bytes_inspected.get(),
            hits,
            hit_list: list,
        }
    })
}

pub fn count_start() {
    MON.with(|m| {
        m.bytes_requested.set(0);
        m.largest_request.set(0);
        m.counting.set(true);
    });
}

/// (total bytes requested, largest single request) since `count_start`
pub fn count_stop() -> (u64, u64) {
    MON.with(|m| {
        m.counting.set(false);
        (m.bytes_requested.get(), m.largest_request.get())
    })
}
