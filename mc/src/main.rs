//! bppmc: bounded exhaustive exploration of tari_bulletproofs_plus against a paper-level reference model.
//!
//!   bppmc check <id> --tier quick|thorough
//!   bppmc replay <file>

mod allocmon;
mod api;
mod common;
mod engine;
mod fg;
mod mutate;
mod props;
mod refbp;
mod sched;

use engine::{Report, Tier};

#[global_allocator]
static ALLOC: allocmon::MonAlloc = allocmon::MonAlloc;

fn usage() -> ! {
    eprintln!("usage: bppmc check <Cxx> [--tier quick|thorough] | bppmc replay <file>");
    std::process::exit(2);
}

fn main() {
    // panics inside the subject are outcomes, not noise
    std::panic::set_hook(Box::new(|_| {}));
    let args: Vec<String> = std::env::args().collect();
    if args.len() < 3 {
        usage();
    }
    match args[1].as_str() {
        "check" => {
            let id = args[2].clone();
            let mut tier = match std::env::var("VERIF_TIER").as_deref() {
                Ok("thorough") => Tier::Thorough,
                _ => Tier::Quick,
            };
            if let Some(i) = args.iter().position(|a| a == "--tier") {
                tier = match args.get(i + 1).map(|s| s.as_str()) {
                    Some("thorough") => Tier::Thorough,
                    Some("quick") => Tier::Quick,
                    _ => usage(),
                };
            }
            let mut rep = Report::new(&id, tier, props::level_of(&id));
            // a panic while the case list is being *built* (outside any case) is an engine failure, reported as such
            match std::panic::catch_unwind(std::panic::AssertUnwindSafe(|| props::run(&id, &mut rep))) {
                Ok(true) => {},
                Ok(false) => {
                    eprintln!("unknown property {}", id);
                    std::process::exit(2);
                },
                Err(e) => {
                    let msg = e.downcast_ref::<String>().cloned().or_else(|| e.downcast_ref::<&str>().map(|s| s.to_string())).unwrap_or_default();
                    rep.machinery.push(format!("harness panicked while building or exploring the case list: {}", msg));
                },
            }
            std::process::exit(rep.finish());
        },
        "replay" => {
            let text = std::fs::read_to_string(&args[2]).expect("replay file readable");
            let v: serde_json::Value = serde_json::from_str(&text).expect("replay file parses");
            let id = v["property"].as_str().expect("property").to_string();
            let tier = if v["tier"].as_str() == Some("thorough") { Tier::Thorough } else { Tier::Quick };
            let key = v["case"].as_str().expect("case").to_string();
            println!("replaying {} case {}", id, key);
            println!("recorded: {}", v["what"]);
            let mut rep = Report::new(&id, tier, props::level_of(&id));
            rep.replay_filter = Some(key);
            props::run(&id, &mut rep);
            std::process::exit(rep.finish());
        },
        "child" => {
            let code = match args[2].as_str() {
                "sched" => sched::child_main(&args[3..]),
                "hist" => props::c18::child_hist(&args[3..]),
                "cases" => {
                    // child cases <builder> <tier> <shard> <nshards> [filter]
                    let tier = if args[4] == "thorough" { Tier::Thorough } else { Tier::Quick };
                    let shard: usize = args[5].parse().unwrap();
                    let shards: usize = args[6].parse().unwrap();
                    let filter = args.get(7).cloned().filter(|s| !s.is_empty());
                    match props::child_cases(&args[3], tier) {
                        Some(cases) => {
                            engine::run_child_shard(cases, shard, shards, filter, &args[3]);
                            0
                        },
                        None => 2,
                    }
                },
                _ => 2,
            };
            std::process::exit(code);
        },
        _ => usage(),
    }
}
