//! Controlled scheduler + preemption-bounded DFS over real OS threads (DESIGN.md 2.6)
//!
//! Exactly one managed thread holds the baton. A thread reaching a scheduling point hands the baton to the thread the
//! schedule prescribes (prefix replay, then default = keep running the same thread). Scheduling points come from the
//! free-module backend, the instrumented merlin and the `verif-hooks` events around the library's two once-cells.
//! The scheduler keeps a tiny model of each cell (Empty -> Running(t) -> Done) only to make waiting visible: a thread
//! parked at `CellEnter(c)` is disabled while `c` is being initialised by another thread.

use std::{
    cell::RefCell,
    collections::VecDeque,
    io::Write,
    process::{Command, Stdio},
    sync::{Arc, Condvar, Mutex},
};

use serde_json::{json, Value};
use tari_bulletproofs_plus::verif_hooks::Event as HookEvent;

use crate::engine::Report;

#[derive(Clone, Copy, Debug, PartialEq)]
enum CellState {
    Empty,
    Running(usize),
    /// initialiser has reached its end marker; becomes Done at the initialising thread's next point / exit
    Finishing(usize),
    Done,
}

#[derive(Clone, Debug, PartialEq)]
enum ThreadState {
    /// parked at a scheduling point; Some(c) = wants to enter cell c
    Parked(Option<u8>),
    Running,
    Finished,
}

#[derive(Clone, Debug)]
pub struct PointRecord {
    /// enabled threads in canonical order: the running thread first if still enabled, then ascending ids
    pub enabled: Vec<usize>,
    pub chosen: usize,
    pub running_still_enabled: bool,
    pub label: String,
}

struct State {
    threads: Vec<ThreadState>,
    current: Option<usize>,
    cells: [CellState; 2],
    init_begins: [u32; 2],
    prefix: Vec<usize>,
    points: Vec<PointRecord>,
    deadlock: bool,
    aborted: bool,
    diverged: Option<String>,
    horizon: usize,
    /// number of times a waiting thread took the baton from a thread that stopped reporting (see wait_for_turn_opt)
    stolen: u32,
}

pub struct Sched {
    state: Mutex<State>,
    cv: Condvar,
    /// who holds the baton (usize::MAX: nobody) -- read without the lock by waiting threads
    current: std::sync::atomic::AtomicUsize,
    aborted: std::sync::atomic::AtomicBool,
    /// bumped at every scheduling decision (liveness signal for the watchdog)
    epoch: std::sync::atomic::AtomicU64,
    steal_after_ticks: std::sync::atomic::AtomicU32,
    handles: Mutex<Vec<Option<std::thread::Thread>>>,
}

thread_local! {
    static CURRENT: RefCell<Option<(Arc<Sched>, usize)>> = const { RefCell::new(None) };
}

impl Sched {
    fn new(n: usize, prefix: Vec<usize>, cells_done: bool) -> Arc<Sched> {
        Arc::new(Sched {
            state: Mutex::new(State {
                threads: vec![ThreadState::Parked(None); n],
                current: None,
                cells: if cells_done { [CellState::Done; 2] } else { [CellState::Empty; 2] },
                init_begins: [0; 2],
                prefix,
                points: Vec::new(),
                deadlock: false,
                aborted: false,
                diverged: None,
                horizon: 200_000,
                stolen: 0,
            }),
            cv: Condvar::new(),
            current: std::sync::atomic::AtomicUsize::new(usize::MAX),
            aborted: std::sync::atomic::AtomicBool::new(false),
            epoch: std::sync::atomic::AtomicU64::new(0),
            steal_after_ticks: std::sync::atomic::AtomicU32::new(300),
            handles: Mutex::new(vec![None; n]),
        })
    }

    /// publish the decision taken under the lock and wake exactly the chosen thread
    fn publish(&self, st: &State) {
        use std::sync::atomic::Ordering::SeqCst;
        self.aborted.store(st.aborted, SeqCst);
        self.epoch.fetch_add(1, SeqCst);
        self.current.store(st.current.unwrap_or(usize::MAX), SeqCst);
        let hs = self.handles.lock().unwrap();
        if st.aborted {
            for h in hs.iter().flatten() {
                h.unpark();
            }
        } else if let Some(c) = st.current {
            if let Some(h) = &hs[c] {
                h.unpark();
            }
        }
    }

    fn enabled(st: &State, t: usize) -> bool {
        match &st.threads[t] {
            ThreadState::Parked(Some(c)) => match st.cells[*c as usize] {
                CellState::Running(o) | CellState::Finishing(o) => o == t,
                _ => true,
            },
            ThreadState::Parked(None) => true,
            _ => false,
        }
    }

    /// Decide who runs next. `me` = the thread that just parked or finished (None at start).
    fn decide(st: &mut State, me: Option<usize>, label: &str) {
        // a finishing initialiser's cell becomes Done at its next point / exit
        if let Some(m) = me {
            for c in st.cells.iter_mut() {
                if *c == CellState::Finishing(m) {
                    *c = CellState::Done;
                }
            }
        }
        let n = st.threads.len();
        let mut enabled: Vec<usize> = Vec::new();
        let mut running_still_enabled = false;
        if let Some(m) = me {
            if Self::enabled(st, m) {
                enabled.push(m);
                running_still_enabled = true;
            }
        }
        for t in 0..n {
            if Some(t) != me && Self::enabled(st, t) {
                enabled.push(t);
            }
        }
        if enabled.is_empty() {
            // deadlock = every unfinished thread is parked and disabled. A thread that is Running (it lost the baton to
            // the watchdog while blocked and now runs on its own) will report again: no deadlock.
            let someone_running = st.threads.iter().enumerate().any(|(t, s)| *s == ThreadState::Running && Some(t) != me);
            if !someone_running && st.threads.iter().any(|t| *t != ThreadState::Finished) {
                st.deadlock = true;
                st.aborted = true;
            }
            st.current = None;
            return;
        }
        if st.points.len() >= st.horizon {
            st.aborted = true;
            st.diverged = Some("horizon exceeded".into());
            st.current = None;
            return;
        }
        let idx = st.points.len();
        let choice = if idx < st.prefix.len() {
            let c = st.prefix[idx];
            if c >= enabled.len() {
                st.aborted = true;
                st.diverged = Some(format!("replayed prefix diverged at point {}: choice {} of {} enabled", idx, c, enabled.len()));
                st.current = None;
                return;
            }
            c
        } else {
            0
        };
        let chosen = enabled[choice];
        st.points.push(PointRecord {
            enabled,
            chosen: choice,
            running_still_enabled,
            label: label.to_string(),
        });
        st.threads[chosen] = ThreadState::Running;
        st.current = Some(chosen);
    }

    fn wait_for_turn(&self, me: usize) {
        self.wait_for_turn_opt(me, true)
    }

    /// `may_panic = false` (allocation points: the allocator must not unwind): an aborted schedule lets the thread run on
    /// uncontrolled. Watchdog: if the thread holding the baton reports nothing for a long time it is presumably blocked
    /// inside a primitive the scheduler does not model (e.g. a std Mutex held by a parked thread); the waiting thread
    /// then takes the baton ("steal") so that the execution terminates; the execution is marked uncontrolled.
    fn wait_for_turn_opt(&self, me: usize, may_panic: bool) {
        use std::sync::atomic::Ordering::SeqCst;
        let mut waited = 0u32;
        let mut last_epoch = self.epoch.load(SeqCst);
        loop {
            if self.aborted.load(SeqCst) {
                if may_panic {
                    panic!("schedule aborted");
                }
                return;
            }
            if self.current.load(SeqCst) == me {
                return;
            }
            std::thread::park_timeout(std::time::Duration::from_millis(10));
            let e = self.epoch.load(SeqCst);
            if e != last_epoch {
                last_epoch = e;
                waited = 0;
            } else {
                waited += 1;
                if waited >= self.steal_after_ticks.load(SeqCst) && self.current.load(SeqCst) != usize::MAX {
                    let mut st = self.state.lock().unwrap();
                    if self.epoch.load(SeqCst) == last_epoch && st.current != Some(me) && !st.aborted {
                        st.stolen += 1;
                        st.threads[me] = ThreadState::Running;
                        st.current = Some(me);
                        self.epoch.fetch_add(1, SeqCst);
                        self.current.store(me, SeqCst);
                        return;
                    }
                    waited = 0;
                }
            }
        }
    }

    fn register(&self, me: usize) {
        self.handles.lock().unwrap()[me] = Some(std::thread::current());
    }

    fn park(&self, me: usize, want_cell: Option<u8>, label: &str) {
        self.park_opt(me, want_cell, label, true)
    }

    fn park_opt(&self, me: usize, want_cell: Option<u8>, label: &str, may_panic: bool) {
        // the scheduler's own allocations are not scheduling points
        crate::allocmon::without_sched_points(|| self.park_inner(me, want_cell, label, may_panic))
    }

    fn park_inner(&self, me: usize, want_cell: Option<u8>, label: &str, may_panic: bool) {
        {
            let mut st = self.state.lock().unwrap();
            if st.aborted {
                drop(st);
                if may_panic {
                    panic!("schedule aborted");
                }
                return;
            }
            if st.stolen > 0 && st.current != Some(me) {
                // this thread lost the baton to the watchdog while it was blocked: it now runs uncontrolled
                return;
            }
            st.threads[me] = ThreadState::Parked(want_cell);
            Self::decide(&mut st, Some(me), label);
            self.publish(&st);
        }
        self.wait_for_turn_opt(me, may_panic);
    }

    fn finish(&self, me: usize) {
        crate::allocmon::set_sched_points(false);
        let mut st = self.state.lock().unwrap();
        st.threads[me] = ThreadState::Finished;
        if !st.aborted {
            Self::decide(&mut st, Some(me), "exit");
        }
        self.publish(&st);
        self.cv.notify_all();
    }
}

/// A scheduling point reached from one of the seams (no-op on threads that are not managed)
static FINE: std::sync::atomic::AtomicBool = std::sync::atomic::AtomicBool::new(false);
static ALLOC_POINTS: std::sync::atomic::AtomicBool = std::sync::atomic::AtomicBool::new(false);

/// Finest granularity: every heap allocation of a managed thread is a scheduling point as well (used with preemption
/// bound 1: "preempted anywhere once")
pub fn set_alloc_points(on: bool) {
    ALLOC_POINTS.store(on, std::sync::atomic::Ordering::SeqCst);
}

/// Fine granularity: every transcript operation and every group operation is a scheduling point. Coarse: challenge
/// draws, transcript-RNG finalisation, construction / use of the shared precomputed table, and the once-cell events.
pub fn set_fine(on: bool) {
    FINE.store(on, std::sync::atomic::Ordering::SeqCst);
    crate::fg::set_fine_points(on);
}

pub fn point(label: &'static str) {
    if label == "merlin.other" && !FINE.load(std::sync::atomic::Ordering::Relaxed) {
        return;
    }
    let cur = CURRENT.with(|c| c.borrow().clone());
    if let Some((s, me)) = cur {
        s.park(me, None, label);
    }
}

/// Allocation event of a managed thread (never unwinds: it is called from inside the global allocator)
fn alloc_point() {
    let cur = CURRENT.try_with(|c| c.try_borrow().ok().and_then(|b| b.clone())).ok().flatten();
    if let Some((s, me)) = cur {
        s.park_opt(me, None, "alloc", false);
    }
}

fn hook_sink(ev: HookEvent) {
    crate::allocmon::without_sched_points(|| hook_sink_inner(ev))
}

fn hook_sink_inner(ev: HookEvent) {
    let cur = CURRENT.with(|c| c.borrow().clone());
    let (s, me) = match cur {
        Some(x) => x,
        None => return,
    };
    // only the two once-cells of src/ristretto.rs have blocking (get_or_init) semantics; events carrying any other
    // index are plain scheduling points, so code that reports its own lazily built state is interleaved freely
    let cell = match ev {
        HookEvent::CellEnter(c) | HookEvent::InitBegin(c) | HookEvent::InitElem(c, _) | HookEvent::InitEnd(c) => c,
    };
    if cell >= 2 {
        s.park(me, None, "foreign-cell-event");
        return;
    }
    match ev {
        HookEvent::CellEnter(c) => s.park(me, Some(c), "cell-enter"),
        HookEvent::InitBegin(c) => {
            let mut st = s.state.lock().unwrap();
            st.cells[c as usize] = CellState::Running(me);
            st.init_begins[c as usize] += 1;
        },
        HookEvent::InitElem(_, _) => s.park(me, None, "init-elem"),
        HookEvent::InitEnd(c) => {
            let mut st = s.state.lock().unwrap();
            st.cells[c as usize] = CellState::Finishing(me);
        },
    }
}

/// Install the process-wide hooks once (they are no-ops on unmanaged threads)
pub fn install_hooks() {
    crate::allocmon::set_alloc_hook(alloc_point);
    crate::fg::set_sched_hook(point);
    merlin::observe::set_sched_hook(point);
    tari_bulletproofs_plus::verif_hooks::set_sink(hook_sink);
}

pub type Body = Box<dyn FnOnce() -> Vec<u8> + Send + 'static>;

#[derive(Clone, Debug)]
pub struct Execution {
    pub points: Vec<PointRecord>,
    /// per thread: Ok(result bytes) / Err(panic message)
    pub results: Vec<Result<Vec<u8>, String>>,
    pub deadlock: bool,
    pub diverged: Option<String>,
    pub init_begins: [u32; 2],
    /// > 0: at some point a thread stopped reporting (blocked in an unmodelled primitive) and the watchdog let another
    /// thread run; from then on the execution was not under the scheduler's control
    pub stolen: u32,
}

impl Execution {
    pub fn choices(&self) -> Vec<usize> {
        self.points.iter().map(|p| p.chosen).collect()
    }

    pub fn to_json(&self) -> Value {
        json!({
            "points": self.points.iter().map(|p| json!([p.enabled, p.chosen, p.running_still_enabled, p.label])).collect::<Vec<_>>(),
            "results": self.results.iter().map(|r| match r { Ok(b) => json!({"ok": crate::fg::hex(b)}), Err(e) => json!({"panic": e}) }).collect::<Vec<_>>(),
            "deadlock": self.deadlock,
            "diverged": self.diverged,
            "init_begins": self.init_begins,
            "stolen": self.stolen,
        })
    }

    pub fn from_json(v: &Value) -> Option<Execution> {
        let points = v["points"]
            .as_array()?
            .iter()
            .map(|p| {
                Some(PointRecord {
                    enabled: p[0].as_array()?.iter().map(|x| x.as_u64().unwrap() as usize).collect(),
                    chosen: p[1].as_u64()? as usize,
                    running_still_enabled: p[2].as_bool()?,
                    label: p[3].as_str()?.to_string(),
                })
            })
            .collect::<Option<Vec<_>>>()?;
        let results = v["results"]
            .as_array()?
            .iter()
            .map(|r| {
                if let Some(h) = r["ok"].as_str() {
                    Ok((0..h.len() / 2).map(|i| u8::from_str_radix(&h[2 * i..2 * i + 2], 16).unwrap()).collect())
                } else {
                    Err(r["panic"].as_str().unwrap_or("panic").to_string())
                }
            })
            .collect();
        Some(Execution {
            points,
            results,
            deadlock: v["deadlock"].as_bool()?,
            diverged: v["diverged"].as_str().map(|s| s.to_string()),
            init_begins: [v["init_begins"][0].as_u64()? as u32, v["init_begins"][1].as_u64()? as u32],
            stolen: v["stolen"].as_u64().unwrap_or(0) as u32,
        })
    }
}

/// Run one execution of the bodies under the schedule prefix (then default policy)
pub type Intern = Arc<Mutex<std::collections::HashMap<[u8; 32], crate::fg::F>>>;

pub fn run_execution(bodies: Vec<Body>, prefix: &[usize], cells_done: bool, intern: Option<Intern>) -> Execution {
    run_execution_opts(bodies, prefix, cells_done, intern, ALLOC_POINTS.load(std::sync::atomic::Ordering::SeqCst))
}

/// `alloc_points`: every heap allocation of the managed threads is a scheduling point as well
pub fn run_execution_opts(bodies: Vec<Body>, prefix: &[usize], cells_done: bool, intern: Option<Intern>, alloc_points: bool) -> Execution {
    let n = bodies.len();
    let sched = Sched::new(n, prefix.to_vec(), cells_done);
    let mut handles = Vec::new();
    for (i, body) in bodies.into_iter().enumerate() {
        let s = sched.clone();
        let intern = intern.clone();
        handles.push(std::thread::spawn(move || {
            if let Some(h) = intern {
                crate::fg::set_intern(h);
            }
            CURRENT.with(|c| *c.borrow_mut() = Some((s.clone(), i)));
            s.register(i);
            let r = std::panic::catch_unwind(std::panic::AssertUnwindSafe(|| {
                s.wait_for_turn(i);
                crate::allocmon::set_sched_points(alloc_points);
                let out = body();
                crate::allocmon::set_sched_points(false);
                out
            }));
            crate::allocmon::set_sched_points(false);
            CURRENT.with(|c| *c.borrow_mut() = None);
            s.finish(i);
            r.map_err(|e| {
                e.downcast_ref::<String>()
                    .cloned()
                    .or_else(|| e.downcast_ref::<&str>().map(|s| s.to_string()))
                    .unwrap_or_else(|| "panic".to_string())
            })
        }));
    }
    {
        let mut st = sched.state.lock().unwrap();
        Sched::decide(&mut st, None, "start");
        sched.publish(&st);
    }
    let results: Vec<Result<Vec<u8>, String>> = handles.into_iter().map(|h| h.join().unwrap_or_else(|_| Err("join failed".into()))).collect();
    let st = sched.state.lock().unwrap();
    Execution {
        points: st.points.clone(),
        results,
        deadlock: st.deadlock,
        diverged: st.diverged.clone(),
        init_begins: st.init_begins,
        stolen: st.stolen,
    }
}

#[derive(Default, Debug, Clone)]
pub struct ExploreStats {
    pub schedules: u64,
    pub transitions: u64,
    pub max_points: usize,
    pub distinct_outcomes: std::collections::BTreeSet<String>,
    pub violations: Vec<(String, String)>,
    pub machinery: Vec<String>,
    pub deadlocks: u64,
    /// executions in which the watchdog had to let another thread run (a thread was blocked in an unmodelled primitive)
    pub stolen: u64,
}

/// Preemption-bounded DFS (iterative, parallel work list). `run` executes one schedule prefix; `check` judges it.
pub fn explore<R, C>(bound: usize, workers: usize, run: R, check: C) -> ExploreStats
where
    R: Fn(&[usize]) -> Result<Execution, String> + Sync,
    C: Fn(&Execution) -> Result<String, String> + Sync,
{
    let queue: Mutex<(VecDeque<Vec<usize>>, usize)> = Mutex::new((VecDeque::from(vec![vec![]]), 0));
    let cv = Condvar::new();
    let stats = Mutex::new(ExploreStats::default());
    let truncated = std::sync::atomic::AtomicBool::new(false);
    let cap: u64 = std::env::var("BPPMC_SCHEDULE_CAP").ok().and_then(|s| s.parse().ok()).unwrap_or(2_000_000);
    std::thread::scope(|s| {
        for _ in 0..workers.max(1) {
            s.spawn(|| loop {
                let prefix = {
                    let mut q = queue.lock().unwrap();
                    loop {
                        if let Some(p) = q.0.pop_front() {
                            q.1 += 1;
                            break Some(p);
                        }
                        if q.1 == 0 {
                            break None;
                        }
                        q = cv.wait(q).unwrap();
                    }
                };
                let prefix = match prefix {
                    Some(p) => p,
                    None => {
                        cv.notify_all();
                        return;
                    },
                };
                let mut children: Vec<Vec<usize>> = Vec::new();
                match run(&prefix) {
                    Err(e) => stats.lock().unwrap().machinery.push(format!("schedule {:?}: {}", prefix, e)),
                    Ok(x) => {
                        let mut st = stats.lock().unwrap();
                        st.schedules += 1;
                        st.transitions += x.points.len() as u64;
                        st.max_points = st.max_points.max(x.points.len());
                        if x.stolen > 0 {
                            st.stolen += 1;
                            // every intervention costs seconds of wall time: a tree on which threads keep blocking outside the
                            // scheduler's control gets a process-wide budget, after which explorations are cut short and say so
                            let n = WATCHDOG_INTERVENTIONS.fetch_add(1, std::sync::atomic::Ordering::SeqCst) + 1;
                            if n > watchdog_budget() {
                                truncated.store(true, std::sync::atomic::Ordering::SeqCst);
                            }
                        }
                        if x.stolen > 0 && (x.diverged.is_some() || x.deadlock) {
                            // the watchdog intervened (a thread stopped reporting): the execution is not a controlled replay;
                            // it is counted, its results are still compared, nothing is derived from its schedule
                            if let Err(v) = check(&x) {
                                st.violations.push((format!("schedule={:?}", x.choices()), v));
                            }
                        } else if let Some(d) = &x.diverged {
                            st.machinery.push(format!("schedule {:?}: {}", prefix, d));
                        } else {
                            if x.deadlock {
                                st.deadlocks += 1;
                                st.violations.push((format!("schedule={:?}", x.choices()), "deadlock: no enabled thread while some have not finished".into()));
                            }
                            match check(&x) {
                                Ok(outcome) => {
                                    st.distinct_outcomes.insert(outcome);
                                },
                                Err(v) => st.violations.push((format!("schedule={:?}", x.choices()), v)),
                            }
                            if st.schedules > cap {
                                st.machinery.push(format!("schedule cap {} hit", cap));
                            } else {
                                drop(st);
                                // branch at every point at or after the prefix
                                let choices = x.choices();
                                let mut preemptions = 0usize;
                                for i in 0..x.points.len() {
                                    let p = &x.points[i];
                                    if i >= prefix.len() {
                                        for alt in 1..p.enabled.len() {
                                            let cost = preemptions + if p.running_still_enabled { 1 } else { 0 };
                                            if cost > bound {
                                                continue;
                                            }
                                            let mut c = choices[..i].to_vec();
                                            c.push(alt);
                                            children.push(c);
                                        }
                                    }
                                    if p.running_still_enabled && p.chosen != 0 {
                                        preemptions += 1;
                                    }
                                }
                            }
                        }
                    },
                }
                let mut q = queue.lock().unwrap();
                if truncated.load(std::sync::atomic::Ordering::SeqCst) {
                    q.0.clear();
                } else {
                    q.0.extend(children);
                }
                q.1 -= 1;
                cv.notify_all();
            });
        }
    });
    let mut st = stats.into_inner().unwrap();
    if truncated.load(std::sync::atomic::Ordering::SeqCst) {
        st.machinery.push(format!(
            "exploration cut short: the watchdog had to intervene more than {} times in this process (threads block outside the scheduler's control); {} schedules were run",
            watchdog_budget(),
            st.schedules
        ));
    }
    st.violations.sort();
    st.machinery.sort();
    st
}

static WATCHDOG_INTERVENTIONS: std::sync::atomic::AtomicU64 = std::sync::atomic::AtomicU64::new(0);
fn watchdog_budget() -> u64 {
    std::env::var("BPPMC_WATCHDOG_BUDGET").ok().and_then(|s| s.parse().ok()).unwrap_or(40)
}

// ---------------------------------------------------------------------------------------------------------------
// first-use race harness (fresh child process per schedule)

pub fn child_bodies(name: &str) -> Option<Vec<Body>> {
    crate::props::c18::child_bodies(name)
}

/// `bppmc child sched <harness> <comma-separated prefix>`: run one schedule in this (fresh) process, print JSON
pub fn child_main(args: &[String]) -> i32 {
    install_hooks();
    if std::env::var("BPPMC_ALLOC_POINTS").as_deref() == Ok("1") {
        set_alloc_points(true);
    }
    let name = &args[0];
    let prefix: Vec<usize> = args.get(1).map(|s| s.split(',').filter(|x| !x.is_empty()).map(|x| x.parse().unwrap()).collect()).unwrap_or_default();
    let bodies = match child_bodies(name) {
        Some(b) => b,
        None => {
            eprintln!("unknown harness {}", name);
            return 2;
        },
    };
    let mut x = run_execution(bodies, &prefix, false, Some(crate::fg::intern_handle()));
    if !x.deadlock && x.diverged.is_none() {
        // probe calls after the race, sequentially on the main thread (unmanaged)
        for probe in crate::props::c18::child_probes(name) {
            x.results.push(std::panic::catch_unwind(std::panic::AssertUnwindSafe(probe)).map_err(|_| "probe panicked".to_string()));
        }
    }
    let out = serde_json::to_string(&x.to_json()).unwrap();
    let mut o = std::io::stdout();
    let _ = writeln!(o, "{}", out);
    let _ = o.flush();
    // threads parked by an aborted schedule never finish: leave without joining them
    std::process::exit(0);
}

pub fn run_in_child(harness: &str, prefix: &[usize]) -> Result<Execution, String> {
    run_in_child_opts(harness, prefix, false)
}

/// `alloc_points`: every heap allocation of the racing threads is a scheduling point as well
pub fn run_in_child_opts(harness: &str, prefix: &[usize], alloc_points: bool) -> Result<Execution, String> {
    let exe = std::env::current_exe().map_err(|e| e.to_string())?;
    let p: Vec<String> = prefix.iter().map(|x| x.to_string()).collect();
    let out = Command::new(exe)
        .args(["child", "sched", harness, &p.join(",")])
        .env("BPPMC_ALLOC_POINTS", if alloc_points { "1" } else { "0" })
        .stdin(Stdio::null())
        .stderr(Stdio::null())
        .output()
        .map_err(|e| e.to_string())?;
    let text = String::from_utf8_lossy(&out.stdout);
    let line = text.lines().last().ok_or_else(|| format!("child produced no output (status {:?})", out.status))?;
    let v: Value = serde_json::from_str(line).map_err(|e| format!("child output unparsable: {} ({})", e, line.chars().take(80).collect::<String>()))?;
    Execution::from_json(&v).ok_or_else(|| "child output incomplete".to_string())
}

/// Explore the first-use race harnesses and fold the result into the report
pub fn explore_first_use(rep: &mut Report, id: &str, bound: usize, thorough: bool) {
    let harnesses: Vec<&str> = if id == "C11" {
        if thorough {
            vec!["gens-2", "gens-3"]
        } else {
            vec!["gens-2"]
        }
    } else if thorough {
        vec!["prove-verify", "verify-verify", "prove-gens-verify"]
    } else {
        vec!["prove-verify", "verify-verify"]
    };
    // replay of one recorded schedule: run exactly that schedule twice in fresh processes and show the results
    if let Some(f) = rep.replay_filter.clone() {
        for h in &harnesses {
            let marker = format!("{}/first-use/{}#schedule=[", id, h);
            if let Some(rest) = f.strip_prefix(&marker) {
                let sched: Vec<usize> = rest.trim_end_matches(']').split(',').filter_map(|x| x.trim().parse().ok()).collect();
                let base = run_in_child(h, &[]);
                let a = run_in_child(h, &sched);
                let b = run_in_child(h, &sched);
                println!("replaying schedule {:?} of first-use harness {}", sched, h);
                match (base, a, b) {
                    (Ok(base), Ok(a), Ok(b)) => {
                        println!("  identical on both replays: {}", a.results == b.results && a.choices() == b.choices());
                        for (t, r) in a.results.iter().enumerate() {
                            let same = Some(r) == base.results.get(t);
                            println!("  call {}: {} the sequential baseline ({})", t, if same { "equals" } else { "DIFFERS from" }, match r {
                                Ok(bytes) => format!("{} bytes", bytes.len()),
                                Err(p) => format!("panic: {}", p),
                            });
                            if !same {
                                rep.violations.push((f.clone(), format!("call {} differs from the sequential baseline under the replayed schedule", t)));
                            }
                        }
                        if a.deadlock {
                            rep.violations.push((f.clone(), "deadlock under the replayed schedule".into()));
                        }
                    },
                    (x, y, z) => rep.machinery.push(format!("replay failed: {:?} {:?} {:?}", x.err(), y.err(), z.err())),
                }
            }
        }
        return;
    }
    for h in harnesses {
        // the 0-preemption execution is the sequential baseline
        let baseline = match run_in_child(h, &[]) {
            Ok(b) => b,
            Err(e) => {
                rep.machinery.push(format!("first-use harness {}: {}", h, e));
                continue;
            },
        };
        // replay determinism: the same schedule twice gives identical observations
        match run_in_child(h, &baseline.choices()) {
            Ok(b2) if b2.results == baseline.results && b2.choices() == baseline.choices() => {},
            _ => rep.machinery.push(format!("first-use harness {}: replaying the baseline schedule is not deterministic", h)),
        }
        let expect = crate::props::c18::expected_results(h);
        let base_results = baseline.results.clone();
        let b = if h.ends_with("-3") || h == "prove-gens-verify" { bound.min(2) } else { bound };
        let stats = explore(
            b,
            16,
            |prefix| run_in_child(h, prefix),
            |x| {
                for (t, r) in x.results.iter().enumerate() {
                    match r {
                        Err(p) => return Err(format!("call {} panicked: {}", t, p)),
                        Ok(bytes) => {
                            if Some(bytes) != base_results.get(t).and_then(|r| r.as_ref().ok()) {
                                return Err(format!("call {} (racing threads first, then the probe calls) differs from the sequential baseline", t));
                            }
                            if let Some(e) = expect.get(t).and_then(|e| e.as_ref()) {
                                if e != bytes && id == "C11" {
                                    // "derived as specified ... on every thread" is C11's property; for C18 the oracle is
                                    // the sequential baseline alone
                                    return Err(format!("call {} (racing threads first, then the probe calls) differs from the reference derivation", t));
                                }
                            }
                        },
                    }
                }
                for c in 0..2 {
                    if x.init_begins[c] > 1 {
                        return Err(format!("initialiser of cached array {} ran {} times", c, x.init_begins[c]));
                    }
                }
                Ok(format!("inits={:?}", x.init_begins))
            },
        );
        fold_stats(rep, id, &format!("first-use/{}", h), b, stats);

        // finest granularity: a preemption at any heap allocation of the racing threads, once
        let base_alloc = match run_in_child_opts(h, &[], true) {
            Ok(b) => b,
            Err(e) => {
                rep.machinery.push(format!("first-use harness {} (every allocation): {}", h, e));
                continue;
            },
        };
        let base_results2 = base_alloc.results.clone();
        let stats = explore(
            1,
            16,
            |prefix| run_in_child_opts(h, prefix, true),
            |x| {
                for (t, r) in x.results.iter().enumerate() {
                    match r {
                        Err(p) => return Err(format!("call {} panicked: {}", t, p)),
                        Ok(bytes) => {
                            if Some(bytes) != base_results2.get(t).and_then(|r| r.as_ref().ok()) {
                                return Err(format!("call {} (racing threads first, then the probe calls) differs from the sequential baseline", t));
                            }
                        },
                    }
                }
                for c in 0..2 {
                    if x.init_begins[c] > 1 {
                        return Err(format!("initialiser of cached array {} ran {} times", c, x.init_begins[c]));
                    }
                }
                Ok(format!("inits={:?},blocked={}", x.init_begins, x.stolen > 0))
            },
        );
        fold_stats(rep, id, &format!("first-use/{}/every-allocation", h), 1, stats);
    }
}

pub fn fold_stats(rep: &mut Report, id: &str, what: &str, bound: usize, stats: ExploreStats) {
    rep.extra_states += stats.schedules;
    rep.nontrivial += stats.schedules;
    rep.transitions += stats.transitions;
    rep.executions += stats.schedules;
    rep.validated += stats.schedules;
    *rep.outcomes.entry(format!("schedules:{}", what)).or_insert(0) += stats.schedules;
    for o in &stats.distinct_outcomes {
        *rep.sub_outcomes.entry(format!("{}:{}", what, o)).or_insert(0) += 1;
    }
    rep.note(
        &format!("schedules/{}", what),
        json!({"preemption_bound": bound, "schedules": stats.schedules, "scheduling_points_total": stats.transitions, "max_points_per_schedule": stats.max_points, "deadlocks": stats.deadlocks, "distinct_outcomes": stats.distinct_outcomes}),
    );
    if rep.samples.len() < 12 {
        rep.samples.push(json!({"case": format!("{}/{}", id, what), "preemption_bound": bound, "schedules": stats.schedules, "max_points": stats.max_points}));
    }
    for (k, v) in stats.violations.into_iter().take(10) {
        rep.violations.push((format!("{}/{}#{}", id, what, k), v));
    }
    for m in stats.machinery.into_iter().take(5) {
        rep.machinery.push(format!("{}: {}", what, m));
    }
    if stats.schedules <= 1 {
        rep.machinery.push(format!("{}: vacuous schedule exploration ({} schedules)", what, stats.schedules));
    }
}
