#!/bin/bash
# confirm one seeded change: suite passes with it, demo fails with it, demo passes without it
id=$1; v=$2; w=${SEEDROOT:-/tmp/seed}/$id
cd $w || exit 2
git checkout -q -- . ; git clean -fdq -e out -e target -e Cargo.lock
out=$w/out/confirm_$v.txt; : > $out
demo=$(ls out/$v.demo.rs 2>/dev/null)
git apply out/$v.patch.diff || { echo "APPLY-FAILED" >> $out; exit 1; }
lower=$(echo $v | tr A-Z a-z)
if [ -n "$demo" ]; then cp out/$v.demo.rs tests/seeded_demo_$lower.rs; fi
if [ -f out/$v.demo.diff ]; then git apply out/$v.demo.diff || echo "DEMO-APPLY-FAILED" >> $out; fi
# existing suite (exclude the demo test binary)
CARGO_NET_OFFLINE=true cargo test --offline -j 4 --lib --test ristretto > $w/out/suite2_$v.log 2>&1; s1b=$?
CARGO_NET_OFFLINE=true cargo test --offline -j 4 --doc > $w/out/doc_$v.log 2>&1; s1c=$?
echo "suite_with_change lib+integration=$s1b doc=$s1c" >> $out
if [ -n "$demo" ]; then
  CARGO_NET_OFFLINE=true cargo test --offline -j 4 --test seeded_demo_$lower > $w/out/demo_with_$v.log 2>&1; echo "demo_with_change=$?" >> $out
  git checkout -q -- . 
  CARGO_NET_OFFLINE=true cargo test --offline -j 4 --test seeded_demo_$lower > $w/out/demo_without_$v.log 2>&1; echo "demo_without_change=$?" >> $out
  rm -f tests/seeded_demo_$lower.rs
else
  echo "demo is a patch (unit test)" >> $out
fi
git checkout -q -- . ; git clean -fdq -e out -e target -e Cargo.lock
cat $out
