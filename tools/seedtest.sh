#!/bin/bash
# usage: seedtest.sh <patch.diff> <Cxx> [<Cyy> ...]   -- apply a seeded change to /repo, run the quick checks, undo it
patch="$1"; shift
cd /repo || exit 2
if ! git diff --quiet; then echo "repo dirty"; exit 2; fi
git apply "$patch" || { echo "patch does not apply"; exit 2; }
for id in "$@"; do
  out=$(/verif/run.sh check "$id" --tier "${TIER:-quick}" 2>&1)
  code=$?
  nviol=$(echo "$out" | grep -c '^VIOLATION')
  first=$(echo "$out" | grep -A1 '^VIOLATION' | sed -n 2p | cut -c1-260)
  mach=$(echo "$out" | grep -c '^MACHINERY-ERROR')
  echo "$(basename $(dirname $(dirname $patch)))/$(basename $patch) $id exit=$code violations=$nviol machinery=$mach :: $first"
done
git checkout -- . 
