#!/bin/bash
# usage: seedown.sh <seedroot> <Cxx> <V> [<check id> ...]   -- apply <seedroot>/<Cxx>/out/<V>.patch.diff to /repo, run the
# quick check(s) (default: the seed's own property), print a one-line summary each, undo the patch
root=$1; id=$2; v=$3; shift 3
checks=${@:-$id}
cd /repo || exit 2
if ! git diff --quiet; then echo "repo dirty"; exit 2; fi
git apply $root/$id/out/$v.patch.diff || { echo "$id-$v APPLY-FAILED"; exit 2; }
for c in $checks; do
  /verif/run.sh check $c --tier ${TIER:-quick} > /tmp/seedown.log 2>&1; code=$?
  echo "$id-$v $c exit=$code viol=$(grep -c ^VIOLATION /tmp/seedown.log) mach=$(grep -c ^MACHINERY /tmp/seedown.log)"
  grep -A1 "^VIOLATION" /tmp/seedown.log | sed -n 2p | cut -c1-320
  [ $code -eq 2 ] && grep "^MACHINERY" /tmp/seedown.log | head -2 | cut -c1-240
done
git checkout -q -- .
