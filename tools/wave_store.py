#!/usr/bin/env python3
# usage: wave_store.py <seedroot> <wave number> <letters e.g. IJ> <origin text> <Cxx> [<Cyy> ...]
# copies confirmed seeds (confirm_<V>.txt must show: suite passes with the change, demo fails with it, demo passes without)
import json, os, shutil, sys
root, wave, letters, origin = sys.argv[1], int(sys.argv[2]), sys.argv[3], sys.argv[4]
props = {}
for l in open('/verif/properties.jsonl'):
    p = json.loads(l); props[p['id']] = p['title']
for pid in sys.argv[5:]:
    for v in letters:
        src = f'{root}/{pid}/out'
        conf = open(f'{src}/confirm_{v}.txt').read().split()
        c = dict(x.split('=', 1) for x in conf if '=' in x)
        ok = c.get('lib+integration') == '0' and c.get('doc') == '0' and c.get('demo_with_change') == '101' and c.get('demo_without_change') == '0'
        if not ok:
            print("NOT CONFIRMED", pid, v, c); continue
        dst = f'/verif/seeded/{pid}-{v}'
        os.makedirs(dst, exist_ok=True)
        shutil.copy(f'{src}/{v}.patch.diff', f'{dst}/patch.diff')
        shutil.copy(f'{src}/{v}.demo.rs', f'{dst}/demo.rs')
        shutil.copy(f'{src}/{v}.md', f'{dst}/NOTES.md')
        meta = {
            "seed_id": f"{pid}-{v}", "wave": wave, "breaks_property": pid, "property_title": props[pid], "origin": origin,
            "patch": "patch.diff (git apply in /repo; never committed there)",
            "demonstration": f"demo.rs, placed at tests/seeded_demo_{v.lower()}.rs of the crate",
            "needs_to_manifest": "see NOTES.md (written by the sub-agent)",
            "confirmed_by_me": {"how": "tools/confirm_seed.sh in the seed's scratch worktree", "existing_suite_with_change": "pass (lib + integration exit 0, doc exit 0)", "demo_with_change": "fails (exit 101)", "demo_without_change": "passes (exit 0)"},
        }
        json.dump(meta, open(f'{dst}/meta.json', 'w'), indent=1)
        print("stored", pid, v)
