#!/usr/bin/env python3
"""Turns the output of tools/matrix.sh into the markdown table of DESIGN.md section 10.5."""
import sys, re, json, os
rows = {}
for f in sys.argv[1:]:
    for line in open(f):
        parts = line.split()
        if len(parts) < 21 or parts[0] in ("DONE",):
            continue
        rows[parts[0]] = {p.split("=")[0]: p.split("=")[1] for p in parts[1:]}
ids = [f"C{i:02d}" for i in range(1, 21)]
def own(seed):
    if seed.startswith("own-"):
        return seed.split("-")[1]
    return seed.split("-")[0]
print("| seed | " + " | ".join(i[1:] for i in ids) + " | caught by own check |")
print("|---|" + "|".join("---" for _ in ids) + "|---|")
missed = []
for seed in sorted(rows, key=lambda s: (own(s), s)):
    r = rows[seed]
    cells = []
    for i in ids:
        v = r.get(i, "?")
        c = {"0": "·", "1": "**V**", "2": "m"}.get(v, v)
        cells.append(c)
    o = own(seed)
    ok = r.get(o) == "1"
    if not ok:
        missed.append(seed)
    print(f"| {seed} | " + " | ".join(cells) + f" | {'yes' if ok else 'NO'} |")
print()
print(f"{len(rows)} seeds; caught by the check of the property they were written against: {len(rows) - len(missed)}; not: {missed}")
tot_cross = sum(1 for s in rows for i in ids if i != own(s) and rows[s].get(i) == "1")
tot_mach = sum(1 for s in rows for i in ids if rows[s].get(i) == "2")
print(f"cross-property violation cells: {tot_cross}; machinery-error cells: {tot_mach}")
