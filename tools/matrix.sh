#!/bin/bash
# Catch matrix: every seeded change x every quick check, on a SCRATCH copy of the repository and of the harness
# (/tmp/mx), so that /repo, /verif/mc and the registered evidence are not touched.
# usage: matrix.sh <out-file> [seed-dir-glob]
out=${1:-/tmp/mx/matrix.txt}
glob=${2:-/verif/seeded/C*/ /verif/seeded/own-*/}
mkdir -p /tmp/mx/verif
if [ ! -d /tmp/mx/repo ]; then git -C /repo worktree add -q --detach /tmp/mx/repo HEAD && cp /repo/Cargo.lock /tmp/mx/repo/; fi
git -C /tmp/mx/repo checkout -q --detach $(git -C /repo rev-parse HEAD) 2>/dev/null
rsync -a --delete --exclude target /verif/mc/ /tmp/mx/mc/
sed -i 's#path = "/repo"#path = "/tmp/mx/repo"#' /tmp/mx/mc/Cargo.toml
printf '[net]\noffline = true\n[build]\ntarget-dir = "/tmp/mx/target"\n' > /tmp/mx/mc/.cargo/config.toml
cp /verif/known_findings.json /tmp/mx/verif/
export BPPMC_VERIF_DIR=/tmp/mx/verif BPPMC_REPO_DIR=/tmp/mx/repo CARGO_NET_OFFLINE=true
: > $out
for d in $glob; do
  [ -f $d/patch.diff ] || continue
  sid=$(basename $d)
  cd /tmp/mx/repo || exit 2
  git checkout -q -- .
  git apply $d/patch.diff || { echo "$sid APPLY-FAILED" >> $out; continue; }
  (cd /tmp/mx/mc && cargo build --release --offline > /tmp/mx/build.log 2>&1) || { echo "$sid BUILD-FAILED" >> $out; git checkout -q -- .; continue; }
  line="$sid"
  for id in C01 C02 C03 C04 C05 C06 C07 C08 C09 C10 C11 C12 C13 C14 C15 C16 C17 C18 C19 C20; do
    /tmp/mx/target/release/bppmc check $id --tier quick > /tmp/mx/last.log 2>&1; code=$?
    line="$line $id=$code"
  done
  git checkout -q -- .
  echo "$line" >> $out
done
echo DONE >> $out
