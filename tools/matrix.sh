#!/bin/bash
# Catch matrix: seeded changes x every quick check, on a SCRATCH copy of the repository and of the harness, so that
# /repo, /verif/mc and the registered evidence are not touched.
# usage: matrix.sh <scratch-dir> <out-file> <k> <n>     (handles the seeds whose index mod n == k)
mx=${1:-/tmp/mx}; out=${2:-$mx/matrix.txt}; k=${3:-0}; n=${4:-1}
mkdir -p $mx/verif
if [ ! -d $mx/repo ]; then git -C /repo worktree add -q --detach $mx/repo HEAD && cp /repo/Cargo.lock $mx/repo/; fi
git -C $mx/repo checkout -q --detach $(git -C /repo rev-parse HEAD) 2>/dev/null
rsync -a --delete --exclude target /verif/mc/ $mx/mc/
sed -i "s#path = \"/repo\"#path = \"$mx/repo\"#" $mx/mc/Cargo.toml
printf "[net]\noffline = true\n[build]\ntarget-dir = \"$mx/target\"\n" > $mx/mc/.cargo/config.toml
cp /verif/known_findings.json $mx/verif/
export BPPMC_VERIF_DIR=$mx/verif BPPMC_REPO_DIR=$mx/repo CARGO_NET_OFFLINE=true
: > $out
i=0; j=0
for d in /verif/seeded/C*/ /verif/seeded/own-*/; do
  [ -f $d/patch.diff ] || continue
  # SEEDS_RE='-(M|N)$': only seeds whose directory name matches
  if [ -n "$SEEDS_RE" ] && ! basename $d | grep -Eq -- "$SEEDS_RE"; then continue; fi
  # SAMPLE=3: only every third seed (in directory order) is considered at all
  j=$((j+1)); if [ -n "$SAMPLE" ] && [ $((j % SAMPLE)) -ne 0 ]; then continue; fi
  i=$((i+1)); [ $((i % n)) -eq $k ] || continue
  sid=$(basename $d)
  cd $mx/repo || exit 2
  git checkout -q -- .
  git apply $d/patch.diff || { echo "$sid APPLY-FAILED" >> $out; continue; }
  (cd $mx/mc && cargo build --release --offline > $mx/build.log 2>&1) || { echo "$sid BUILD-FAILED" >> $out; git checkout -q -- .; continue; }
  line="$sid"
  ids="C01 C02 C03 C04 C05 C06 C07 C08 C09 C10 C11 C12 C13 C14 C15 C16 C17 C18 C19 C20"
  # ONLY_OWN=1: the diagonal only (the check of the property the seed was written against)
  if [ -n "$ONLY_OWN" ]; then ids=$(echo $sid | sed 's/^own-//' | cut -c1-3); fi
  # ONLY_CHECKS="C02 C07": those columns only
  if [ -n "$ONLY_CHECKS" ]; then ids="$ONLY_CHECKS"; fi
  # seeds that are visible only with debug assertions compiled out (meta.json has a profile_note): the second pass of
  # run.sh is reproduced here for the checks that have one
  nd=""
  if grep -q profile_note $d/meta.json 2>/dev/null; then
    (cd $mx/mc && cargo build --profile nodebug --offline > $mx/build-nd.log 2>&1) && nd=1
  fi
  # C18 compares its operations between the two builds (run.sh does the same)
  if echo " $ids " | grep -q " C18 "; then
    [ -n "$nd" ] || (cd $mx/mc && cargo build --profile nodebug --offline > $mx/build-nd.log 2>&1)
    export BPPMC_OTHER_BUILD=$mx/target/nodebug/bppmc
  fi
  for id in $ids; do
    $mx/target/release/bppmc check $id --tier quick > $mx/last.log 2>&1; code=$?
    if [ -n "$nd" ] && [ $code -eq 0 ] && echo " C02 C04 C05 C06 C07 C08 C09 C10 C11 C12 C13 C14 C15 C16 C17 C19 C20 " | grep -q " $id "; then
      BPPMC_PROFILE=nodebug $mx/target/nodebug/bppmc check $id --tier quick > $mx/last-nd.log 2>&1; code=$?
    fi
    line="$line $id=$code"
  done
  git checkout -q -- .
  echo "$line" >> $out
done
echo DONE >> $out
