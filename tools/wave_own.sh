#!/bin/bash
# usage: wave_own.sh <seedroot> <letters e.g. "O P"> <Cxx> [<Cyy> ...]   -- confirm (background) and run own quick checks
root=$1; letters=$2; shift 2
(for id in "$@"; do for v in $letters; do SEEDROOT=$root /verif/tools/confirm_seed.sh $id $v > /dev/null 2>&1; done; done) &
for id in "$@"; do for v in $letters; do /verif/tools/seedown.sh $root $id $v; done; done
wait
