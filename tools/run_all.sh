#!/bin/bash
# run every check of a tier, print one line per check; validate evidence
tier="${1:-quick}"
for id in C01 C02 C03 C04 C05 C06 C07 C08 C09 C10 C11 C12 C13 C14 C15 C16 C17 C18 C19 C20; do
  s=$(date +%s.%N)
  out=$(/verif/run.sh check $id --tier $tier 2>&1); code=$?
  e=$(date +%s.%N)
  printf "%s exit=%d wall=%.1fs %s\n" $id $code $(echo "$e - $s" | bc) "$(echo "$out" | grep -E "tier=" | sed 's/.*states=/states=/' | cut -c1-110)"
  echo "$out" | grep -E "^(VIOLATION|MACHINERY|KNOWN)" | head -3 | cut -c1-200
done
python3-vt - <<'PY'
import json, jsonschema, glob
s=json.load(open('/root/.vp/EVIDENCE.schema.json'))
for f in sorted(glob.glob('/verif/evidence/*.json')):
    try:
        jsonschema.validate(json.load(open(f)), s)
    except Exception as e:
        print("INVALID", f, str(e)[:200])
print("evidence validated")
PY
