#!/bin/bash
# Build the model checker (no-op when nothing changed; the library is a path dependency on /repo, so any edit to
# /repo's working tree is rebuilt) and run it.  usage: run.sh check <Cxx> --tier quick|thorough | run.sh replay <file>
#
# Two builds of the same harness + library: the primary one (optimised, debug assertions and overflow checks ON -- what
# `cargo test` exercises) and "nodebug" (both OFF -- what `cargo build --release` gives users of the library). Every check
# runs on the primary build; the checks listed in SECOND_PASS (SECOND_PASS_THOROUGH in the thorough tier) run a second time on the
# nodebug build (C18 instead compares the results of its operations between the two builds). Exit code: 1 if either pass reports a violation, else 2 if either had a machinery error, else 0.
set -u
export CARGO_NET_OFFLINE=true
SECOND_PASS="C02 C04 C05 C06 C07 C08 C09 C10 C11 C12 C13 C14 C15 C16 C17 C19 C20"
# thorough tier: also the checks whose thorough exploration is short enough to run twice
SECOND_PASS_THOROUGH="C02 C04 C05 C06 C07 C08 C09 C11 C12 C13 C14 C15 C16 C17 C19 C20"
cd /verif/mc || exit 2
mkdir -p /verif/target
build() {  # $1 = cargo profile flag, $2 = log
  if ! cargo build $1 --offline >$2 2>&1; then
    tail -40 $2
    echo "MACHINERY-ERROR build failed ($1)"
    exit 2
  fi
}
build --release /verif/target/build.log
primary=/verif/target/release/bppmc
second=/verif/target/nodebug/bppmc
if [ "${1:-}" = "replay" ]; then
  prof=$(jq -r '.build_profile // ""' "$2" 2>/dev/null)
  if [ "$(jq -r '.property // ""' "$2" 2>/dev/null)" = "C18" ]; then
    build "--profile nodebug" /verif/target/build-nodebug.log; export BPPMC_OTHER_BUILD=$second
  fi
  case "$prof" in
    nodebug*) build "--profile nodebug" /verif/target/build-nodebug.log; BPPMC_PROFILE=nodebug exec $second "$@" ;;
    *) exec $primary "$@" ;;
  esac
fi
if [ "${1:-}" != "check" ]; then exec $primary "$@"; fi
id=${2:-}
tier=${VERIF_TIER:-quick}
prev=""
for a in "$@"; do [ "$prev" = "--tier" ] && tier=$a; prev=$a; done
# C18 compares what each of its operations returns, alone in a fresh process, between the two builds
if [ "$id" = "C18" ]; then
  build "--profile nodebug" /verif/target/build-nodebug.log; export BPPMC_OTHER_BUILD=$second
fi
$primary "$@"; c1=$?
c2=0
sp="$SECOND_PASS"; [ "$tier" = "thorough" ] && sp="$SECOND_PASS_THOROUGH"
if echo " $sp " | grep -q " $id "; then
  build "--profile nodebug" /verif/target/build-nodebug.log
  echo "[$id] ---- second pass: nodebug build (debug assertions and overflow checks off)"
  BPPMC_PROFILE=nodebug $second "$@" | sed -e "/^VIOLATION\|^KNOWN-FINDING\|^MACHINERY-ERROR/!s/^/[nodebug] /"; c2=${PIPESTATUS[0]}
  ev=${BPPMC_VERIF_DIR:-/verif}/evidence
  if [ -f $ev/$id.json ] && [ -f $ev/$id.nodebug.json ]; then
    jq --slurpfile s $ev/$id.nodebug.json --argjson code $c2 '.coverage.second_pass = {build_profile: $s[0].coverage.build_profile, exit_code: $code, evidence_file: ("evidence/" + .property_id + ".nodebug.json"), states: $s[0].coverage.states, evaluations: $s[0].coverage.evaluations, violations: $s[0].violations}' $ev/$id.json > $ev/$id.json.tmp && mv $ev/$id.json.tmp $ev/$id.json
  fi
fi
for c in $c1 $c2; do [ $c -eq 1 ] && exit 1; done
for c in $c1 $c2; do [ $c -ne 0 ] && exit 2; done
exit 0
