#!/bin/bash
# Build the model checker (no-op when nothing changed; the library is a path dependency on /repo, so any edit to
# /repo's working tree is rebuilt) and run it.  usage: run.sh check <Cxx> --tier quick|thorough | run.sh replay <file>
set -u
export CARGO_NET_OFFLINE=true
cd /verif/mc || exit 2
if ! cargo build --release --offline >/verif/target/build.log 2>&1; then
  mkdir -p /verif/target
  cargo build --release --offline 2>&1 | tail -40
  echo "MACHINERY-ERROR build failed"
  exit 2
fi
exec /verif/target/release/bppmc "$@"
