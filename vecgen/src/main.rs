//! Records wire vectors from the pinned release (see Cargo.toml). Output: JSON on stdout.
use curve25519_dalek::scalar::Scalar;
use merlin::Transcript;
use rand_chacha::ChaCha12Rng;
use rand_core::SeedableRng;
use serde_json::json;
use sha3::{Digest, Sha3_256, Sha3_512};
use tari_bulletproofs_plus::{
    commitment_opening::CommitmentOpening,
    generators::pedersen_gens::ExtensionDegree,
    range_parameters::RangeParameters,
    range_proof::VerifyAction,
    range_statement::RangeStatement,
    range_witness::RangeWitness,
    ristretto::{create_pedersen_gens_with_extension_degree, RistrettoRangeProof},
};

fn hex(b: &[u8]) -> String {
    b.iter().map(|x| format!("{:02x}", x)).collect()
}

fn wide_scalar(tag: &str, a: u64, b: u64) -> Scalar {
    let mut h = Sha3_512::new();
    h.update(tag.as_bytes());
    h.update(a.to_le_bytes());
    h.update(b.to_le_bytes());
    let out: [u8; 64] = h.finalize().into();
    Scalar::from_bytes_mod_order_wide(&out)
}

fn main() {
    let mut proofs = Vec::new();
    let ctxs: [(&'static [u8], Option<&'static [u8]>); 2] = [(b"ctx-a", None), (b"ctx-b", Some(b"m1"))];
    let mut idx = 0u64;
    for &n in &[1usize, 2, 4, 8, 64] {
        for &(m, c) in &[(1usize, 1usize), (1, 2), (2, 2), (2, 8), (8, 8)] {
            for &d in &[1usize, 2, 6] {
                for seeded in [false, true] {
                    if seeded && m != 1 {
                        continue;
                    }
                    for (ci, (label, msg)) in ctxs.iter().enumerate() {
                        idx += 1;
                        let max = if n >= 64 { u64::MAX } else { (1u64 << n) - 1 };
                        let values: Vec<u64> = (0..m).map(|j| (0x9E37_79B9_7F4A_7C15u64.wrapping_mul(j as u64 + idx) ^ 0x5555) & max).collect();
                        let blindings: Vec<Vec<Scalar>> = (0..m).map(|j| (0..d).map(|k| wide_scalar("vec-blinding", idx * 64 + j as u64, k as u64)).collect()).collect();
                        let promises: Vec<Option<u64>> = (0..m).map(|j| if (j + ci) % 2 == 0 && values[j] > 0 { Some(values[j] / 3) } else { None }).collect();
                        let seed = if seeded { Some(wide_scalar("vec-seed", idx, 0)) } else { None };
                        let pc = create_pedersen_gens_with_extension_degree(ExtensionDegree::try_from(d).unwrap());
                        let params = RangeParameters::init(n, c, pc).unwrap();
                        let commitments: Vec<_> = values.iter().zip(blindings.iter()).map(|(v, r)| params.pc_gens().commit(&Scalar::from(*v), r).unwrap()).collect();
                        let st = RangeStatement::init(params, commitments.clone(), promises.clone(), seed).unwrap();
                        let wit = RangeWitness::init(values.iter().zip(blindings.iter()).map(|(v, r)| CommitmentOpening::new(*v, r.clone())).collect()).unwrap();
                        let mk = || {
                            let mut t = Transcript::new(label);
                            if let Some(m) = msg {
                                t.append_message(b"caller", m);
                            }
                            t
                        };
                        let mut rng = ChaCha12Rng::seed_from_u64(idx);
                        let proof = RistrettoRangeProof::prove_with_rng(&mut mk(), &st, &wit, &mut rng).unwrap();
                        let action = if seeded { VerifyAction::RecoverAndVerify } else { VerifyAction::VerifyOnly };
                        let masks = RistrettoRangeProof::verify_batch(&mut [mk()], &[st.clone()], &[proof.clone()], action).unwrap();
                        let mask_hex: Option<Vec<String>> = masks[0].as_ref().map(|m| m.blindings().unwrap().iter().map(|s| hex(s.as_bytes())).collect());
                        proofs.push(json!({
                            "n": n, "m": m, "c": c, "d": d,
                            "ctx_label": String::from_utf8_lossy(label), "ctx_msg": msg.map(|m| String::from_utf8_lossy(m).to_string()),
                            "values": values.iter().map(|v| v.to_string()).collect::<Vec<_>>(),
                            "blindings": blindings.iter().map(|r| r.iter().map(|s| hex(s.as_bytes())).collect::<Vec<_>>()).collect::<Vec<_>>(),
                            "promises": promises.iter().map(|p| p.map(|x| x.to_string())).collect::<Vec<_>>(),
                            "seed": seed.map(|s| hex(s.as_bytes())),
                            "commitments": commitments.iter().map(|c| hex(c.compress().as_bytes())).collect::<Vec<_>>(),
                            "proof": hex(&proof.to_bytes()),
                            "masks": mask_hex,
                        }));
                    }
                }
            }
        }
    }
    let mut generators = Vec::new();
    for &n in &[1usize, 2, 4, 8, 16, 32, 64] {
        for &c in &[1usize, 2, 4, 8, 16, 32] {
            let params = RangeParameters::init(n, c, create_pedersen_gens_with_extension_degree(ExtensionDegree::DefaultPedersen)).unwrap();
            let mut h = Sha3_256::new();
            for g in params.gi_base_iter() {
                h.update(g.compress().as_bytes());
            }
            for g in params.hi_base_iter() {
                h.update(g.compress().as_bytes());
            }
            generators.push(json!({"n": n, "c": c, "digest": hex(&h.finalize())}));
        }
    }
    let pc6 = create_pedersen_gens_with_extension_degree(ExtensionDegree::AddFiveBasePoints);
    let out = json!({
        "recorded_from": "tari bulletproofs-plus 0.4.0, pinned snapshot commit 6415632, pristine merlin 3.0.0",
        "proofs": proofs,
        "generators": generators,
        "pedersen_h": hex(pc6.h_base_compressed.as_bytes()),
        "pedersen_g": pc6.g_base_compressed_vec.iter().map(|g| hex(g.as_bytes())).collect::<Vec<_>>(),
    });
    println!("{}", serde_json::to_string(&out).unwrap());
}
