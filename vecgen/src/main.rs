//! Records wire vectors from the pinned release (see Cargo.toml). Output: JSON on stdout.
use curve25519_dalek::scalar::Scalar;
use merlin::Transcript;
use rand_chacha::ChaCha12Rng;
use rand_core::SeedableRng;
use serde_json::json;
use sha3::{Digest, Sha3_256, Sha3_512};
use tari_bulletproofs_plus::{
    commitment_opening::CommitmentOpening,
    generators::pedersen_gens::ExtensionDegree,
    range_parameters::RangeParameters,
    range_proof::VerifyAction,
    range_statement::RangeStatement,
    range_witness::RangeWitness,
    ristretto::{create_pedersen_gens_with_extension_degree, RistrettoRangeProof},
};

fn hex(b: &[u8]) -> String {
    b.iter().map(|x| format!("{:02x}", x)).collect()
}

fn wide_scalar(tag: &str, a: u64, b: u64) -> Scalar {
    let mut h = Sha3_512::new();
    h.update(tag.as_bytes());
    h.update(a.to_le_bytes());
    h.update(b.to_le_bytes());
    let out: [u8; 64] = h.finalize().into();
    Scalar::from_bytes_mod_order_wide(&out)
}

fn main() {
    let mut proofs = Vec::new();
    let ctxs: [(&'static [u8], Option<&'static [u8]>); 2] = [(b"ctx-a", None), (b"ctx-b", Some(b"m1"))];
    let mut idx = 0u64;
    for &n in &[1usize, 2, 4, 8, 64] {
        for &(m, c) in &[(1usize, 1usize), (1, 2), (2, 2), (2, 8), (8, 8)] {
            for &d in &[1usize, 2, 6] {
                for seeded in [false, true] {
                    if seeded && m != 1 {
                        continue;
                    }
                    for (ci, (label, msg)) in ctxs.iter().enumerate() {
                        idx += 1;
                        let max = if n >= 64 { u64::MAX } else { (1u64 << n) - 1 };
                        let values: Vec<u64> = (0..m).map(|j| (0x9E37_79B9_7F4A_7C15u64.wrapping_mul(j as u64 + idx) ^ 0x5555) & max).collect();
                        let blindings: Vec<Vec<Scalar>> = (0..m).map(|j| (0..d).map(|k| wide_scalar("vec-blinding", idx * 64 + j as u64, k as u64)).collect()).collect();
                        let promises: Vec<Option<u64>> = (0..m).map(|j| if (j + ci) % 2 == 0 && values[j] > 0 { Some(values[j] / 3) } else { None }).collect();
                        let seed = if seeded { Some(wide_scalar("vec-seed", idx, 0)) } else { None };
                        let pc = create_pedersen_gens_with_extension_degree(ExtensionDegree::try_from(d).unwrap());
                        let params = RangeParameters::init(n, c, pc).unwrap();
                        let commitments: Vec<_> = values.iter().zip(blindings.iter()).map(|(v, r)| params.pc_gens().commit(&Scalar::from(*v), r).unwrap()).collect();
                        let st = RangeStatement::init(params, commitments.clone(), promises.clone(), seed).unwrap();
                        let wit = RangeWitness::init(values.iter().zip(blindings.iter()).map(|(v, r)| CommitmentOpening::new(*v, r.clone())).collect()).unwrap();
                        let mk = || {
                            let mut t = Transcript::new(label);
                            if let Some(m) = msg {
                                t.append_message(b"caller", m);
                            }
                            t
                        };
                        let mut rng = ChaCha12Rng::seed_from_u64(idx);
                        let proof = RistrettoRangeProof::prove_with_rng(&mut mk(), &st, &wit, &mut rng).unwrap();
                        let action = if seeded { VerifyAction::RecoverAndVerify } else { VerifyAction::VerifyOnly };
                        let masks = RistrettoRangeProof::verify_batch(&mut [mk()], &[st.clone()], &[proof.clone()], action).unwrap();
                        let mask_hex: Option<Vec<String>> = masks[0].as_ref().map(|m| m.blindings().unwrap().iter().map(|s| hex(s.as_bytes())).collect());
                        proofs.push(json!({
                            "n": n, "m": m, "c": c, "d": d,
                            "ctx_label": String::from_utf8_lossy(label), "ctx_msg": msg.map(|m| String::from_utf8_lossy(m).to_string()),
                            "values": values.iter().map(|v| v.to_string()).collect::<Vec<_>>(),
                            "blindings": blindings.iter().map(|r| r.iter().map(|s| hex(s.as_bytes())).collect::<Vec<_>>()).collect::<Vec<_>>(),
                            "promises": promises.iter().map(|p| p.map(|x| x.to_string())).collect::<Vec<_>>(),
                            "seed": seed.map(|s| hex(s.as_bytes())),
                            "commitments": commitments.iter().map(|c| hex(c.compress().as_bytes())).collect::<Vec<_>>(),
                            "proof": hex(&proof.to_bytes()),
                            "masks": mask_hex,
                        }));
                    }
                }
            }
        }
    }
    // ---- corner vectors (appended; the vectors above are unchanged): identity commitments, upper-half values with large
    // promises, zero blinding factors in leading positions, corner seeds, in-between parameter values
    struct Corner {
        n: usize,
        m: usize,
        c: usize,
        d: usize,
        values: Vec<u64>,
        zero_blinding: Vec<(usize, usize)>, // (position, component) forced to zero
        all_zero_blinding_at: Option<usize>,
        promises: Vec<Option<u64>>,
        seed: Option<Scalar>,
    }
    let top = |n: usize| if n >= 64 { u64::MAX } else { (1u64 << n) - 1 };
    let half = |n: usize| 1u64 << (n - 1);
    let mut corners: Vec<Corner> = Vec::new();
    for &(n, d) in &[(8usize, 1usize), (64, 3), (16, 2)] {
        // identity commitment, alone (seeded and not) and inside an aggregate
        corners.push(Corner { n, m: 1, c: 1, d, values: vec![0], zero_blinding: vec![], all_zero_blinding_at: Some(0), promises: vec![None], seed: None });
        corners.push(Corner { n, m: 1, c: 2, d, values: vec![0], zero_blinding: vec![], all_zero_blinding_at: Some(0), promises: vec![Some(0)], seed: Some(wide_scalar("corner-seed", n as u64, d as u64)) });
        corners.push(Corner { n, m: 2, c: 2, d, values: vec![3 & top(n), 0], zero_blinding: vec![], all_zero_blinding_at: Some(1), promises: vec![Some(1), None], seed: None });
    }
    for &n in &[2usize, 8, 16, 32, 64] {
        // upper half of the range, promise in the upper half too / equal to the value
        corners.push(Corner { n, m: 1, c: 1, d: 1, values: vec![top(n)], zero_blinding: vec![], all_zero_blinding_at: None, promises: vec![Some(half(n))], seed: Some(wide_scalar("corner-seed2", n as u64, 0)) });
        corners.push(Corner { n, m: 2, c: 4, d: 2, values: vec![half(n), top(n)], zero_blinding: vec![], all_zero_blinding_at: None, promises: vec![Some(half(n)), Some(top(n))], seed: None });
    }
    // zero blinding factor before a non-zero one
    corners.push(Corner { n: 8, m: 1, c: 1, d: 2, values: vec![200], zero_blinding: vec![(0, 0)], all_zero_blinding_at: None, promises: vec![None], seed: Some(wide_scalar("corner-seed3", 0, 0)) });
    corners.push(Corner { n: 32, m: 2, c: 2, d: 4, values: vec![7, 1 << 31], zero_blinding: vec![(0, 0), (0, 2), (1, 1)], all_zero_blinding_at: None, promises: vec![None, Some(5)], seed: None });
    // corner seeds
    for (i, s) in [Scalar::ZERO, Scalar::ONE, -Scalar::ONE].into_iter().enumerate() {
        corners.push(Corner { n: 4, m: 1, c: 1, d: 1 + 2 * i, values: vec![9], zero_blinding: vec![], all_zero_blinding_at: None, promises: vec![Some(9)], seed: Some(s) });
    }
    // in-between parameter values
    for &(n, m, c, d) in &[(16usize, 4usize, 4usize, 4usize), (32, 8, 8, 5), (16, 16, 16, 3), (32, 1, 32, 4), (2, 32, 32, 2), (16, 1, 1, 5), (32, 2, 4, 3)] {
        let values: Vec<u64> = (0..m).map(|j| (0xD1B5_4A32_D192_ED03u64.wrapping_mul(j as u64 + 1) ^ (j as u64)) & top(n)).collect();
        let promises: Vec<Option<u64>> = values.iter().enumerate().map(|(j, v)| if j % 3 == 1 { Some(*v / 2) } else { None }).collect();
        let seed = if m == 1 { Some(wide_scalar("corner-seed4", n as u64, d as u64)) } else { None };
        corners.push(Corner { n, m, c, d, values, zero_blinding: vec![], all_zero_blinding_at: None, promises, seed });
    }
    for cr in corners {
        for (label, msg) in ctxs.iter().take(1) {
            idx += 1;
            let (n, m, c, d) = (cr.n, cr.m, cr.c, cr.d);
            let values = cr.values.clone();
            let mut blindings: Vec<Vec<Scalar>> = (0..m).map(|j| (0..d).map(|k| wide_scalar("vec-blinding", idx * 64 + j as u64, k as u64)).collect()).collect();
            for (j, k) in &cr.zero_blinding {
                blindings[*j][*k] = Scalar::ZERO;
            }
            if let Some(j) = cr.all_zero_blinding_at {
                for k in 0..d {
                    blindings[j][k] = Scalar::ZERO;
                }
            }
            let promises = cr.promises.clone();
            let seed = cr.seed;
            let seeded = seed.is_some();
            let pc = create_pedersen_gens_with_extension_degree(ExtensionDegree::try_from(d).unwrap());
            let params = RangeParameters::init(n, c, pc).unwrap();
            let commitments: Vec<_> = values.iter().zip(blindings.iter()).map(|(v, r)| params.pc_gens().commit(&Scalar::from(*v), r).unwrap()).collect();
            let st = RangeStatement::init(params, commitments.clone(), promises.clone(), seed).unwrap();
            let wit = RangeWitness::init(values.iter().zip(blindings.iter()).map(|(v, r)| CommitmentOpening::new(*v, r.clone())).collect()).unwrap();
            let mk = || {
                let mut t = Transcript::new(label);
                if let Some(m) = msg {
                    t.append_message(b"caller", m);
                }
                t
            };
            let mut rng = ChaCha12Rng::seed_from_u64(idx);
            let proof = RistrettoRangeProof::prove_with_rng(&mut mk(), &st, &wit, &mut rng).unwrap();
            let action = if seeded { VerifyAction::RecoverAndVerify } else { VerifyAction::VerifyOnly };
            let masks = RistrettoRangeProof::verify_batch(&mut [mk()], &[st.clone()], &[proof.clone()], action).unwrap();
            let mask_hex: Option<Vec<String>> = masks[0].as_ref().map(|m| m.blindings().unwrap().iter().map(|s| hex(s.as_bytes())).collect());
            proofs.push(json!({
                "n": n, "m": m, "c": c, "d": d, "corner": true,
                "ctx_label": String::from_utf8_lossy(label), "ctx_msg": msg.map(|m| String::from_utf8_lossy(m).to_string()),
                "values": values.iter().map(|v| v.to_string()).collect::<Vec<_>>(),
                "blindings": blindings.iter().map(|r| r.iter().map(|s| hex(s.as_bytes())).collect::<Vec<_>>()).collect::<Vec<_>>(),
                "promises": promises.iter().map(|p| p.map(|x| x.to_string())).collect::<Vec<_>>(),
                "seed": seed.map(|s| hex(s.as_bytes())),
                "commitments": commitments.iter().map(|c| hex(c.compress().as_bytes())).collect::<Vec<_>>(),
                "proof": hex(&proof.to_bytes()),
                "masks": mask_hex,
            }));
        }
    }
    let mut generators = Vec::new();
    for &n in &[1usize, 2, 4, 8, 16, 32, 64] {
        for &c in &[1usize, 2, 4, 8, 16, 32] {
            let params = RangeParameters::init(n, c, create_pedersen_gens_with_extension_degree(ExtensionDegree::DefaultPedersen)).unwrap();
            let mut h = Sha3_256::new();
            for g in params.gi_base_iter() {
                h.update(g.compress().as_bytes());
            }
            for g in params.hi_base_iter() {
                h.update(g.compress().as_bytes());
            }
            generators.push(json!({"n": n, "c": c, "digest": hex(&h.finalize())}));
        }
    }
    let pc6 = create_pedersen_gens_with_extension_degree(ExtensionDegree::AddFiveBasePoints);
    let out = json!({
        "recorded_from": "tari bulletproofs-plus 0.4.0, pinned snapshot commit 6415632, pristine merlin 3.0.0",
        "proofs": proofs,
        "generators": generators,
        "pedersen_h": hex(pc6.h_base_compressed.as_bytes()),
        "pedersen_g": pc6.g_base_compressed_vec.iter().map(|g| hex(g.as_bytes())).collect::<Vec<_>>(),
    });
    println!("{}", serde_json::to_string(&out).unwrap());
}
